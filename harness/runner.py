"""Generation, sharding, signatures, evidence and replay (DESIGN.md 2.6).

A property module (``props/cNN_*.py``) provides::

    ID = 'C07'
    LEVEL = 'exploration'
    RULE = '...'                       # what makes a case non-trivial
    def strategy(tier) -> SearchStrategy    # generated cases (JSON-able)
    def run_case(case) -> CaseOut           # executes one case against pymap
    def enumerate_cases(tier) -> iterable   # optional exhaustive sub-space
    FUZZ / fuzz_decode / fuzz_seeds         # optional coverage-guided part (harness/fuzz.py)
    BUDGET = {'quick': (examples_per_shard, shards), 'thorough': (...)}

``run_case`` never raises for an oracle failure; it returns them as
``Failure(signature, message)`` so that known findings can be counted and the
search continued behind them. An exception escaping ``run_case`` is a harness
error (exit 2), never a verdict.
"""
from __future__ import annotations

import base64
import hashlib
import json
import multiprocessing
import os
import sys
import time
import traceback
from collections import Counter
from dataclasses import dataclass, field
from typing import Any, Callable, Iterable

ROOT = os.path.dirname(os.path.dirname(os.path.abspath(__file__)))
NSHARDS = 16

__all__ = ['Failure', 'CaseOut', 'jdump', 'jload', 'main', 'ROOT',
           'case_hash']


# --------------------------------------------------------------------------
# JSON with bytes

def _enc(obj: Any) -> Any:
    if isinstance(obj, (bytes, bytearray, memoryview)):
        b = bytes(obj)
        try:
            s = b.decode('ascii')
            if s.isprintable() or all(ch in '\r\n\t' or ch.isprintable()
                                      for ch in s):
                return {'$b': s}
        except UnicodeDecodeError:
            pass
        return {'$b64': base64.b64encode(b).decode('ascii')}
    if isinstance(obj, dict):
        return {str(k): _enc(v) for k, v in obj.items()}
    if isinstance(obj, (list, tuple)):
        return [_enc(v) for v in obj]
    if isinstance(obj, (set, frozenset)):
        return sorted((_enc(v) for v in obj), key=repr)
    if isinstance(obj, (str, int, float, bool)) or obj is None:
        return obj
    return repr(obj)


def _dec(obj: Any) -> Any:
    if isinstance(obj, dict):
        if len(obj) == 1 and '$b' in obj:
            return obj['$b'].encode('ascii')
        if len(obj) == 1 and '$b64' in obj:
            return base64.b64decode(obj['$b64'])
        return {k: _dec(v) for k, v in obj.items()}
    if isinstance(obj, list):
        return [_dec(v) for v in obj]
    return obj


def jdump(obj: Any, **kw: Any) -> str:
    return json.dumps(_enc(obj), sort_keys=True, **kw)


def jload(text: str) -> Any:
    return _dec(json.loads(text))


def canon(obj: Any) -> Any:
    """Canonical form of a case: what it looks like after a JSON round trip
    (tuples become lists), so generated and replayed cases are identical."""
    return _dec(_enc(obj))


def case_hash(obj: Any) -> str:
    return hashlib.sha1(jdump(obj).encode()).hexdigest()[:16]


# --------------------------------------------------------------------------

@dataclass
class Failure:
    signature: str
    message: str


@dataclass
class CaseOut:
    failures: list[Failure] = field(default_factory=list)
    labels: list[str] = field(default_factory=list)
    #: hashable key when the case is non-trivial by the property's rule
    nontrivial: str | None = None
    #: short written-out form for the evidence samples
    sample: Any = None
    #: extra counters merged into coverage (name -> int)
    counters: dict[str, int] = field(default_factory=dict)
    #: the case ran on a schedule the harness does not own (real threads)
    nondeterministic: bool = False

    def fail(self, signature: str, message: str) -> None:
        self.failures.append(Failure(signature, message))

    def label(self, *names: str) -> None:
        self.labels.extend(names)


class HarnessError(Exception):
    pass


class _StopShrink(KeyboardInterrupt):
    """Raised from inside the test to end Hypothesis' shrink phase when its
    time budget is used up (Hypothesis re-raises KeyboardInterrupt at once)."""


def load_known(prop_id: str) -> dict[str, dict[str, Any]]:
    path = os.path.join(ROOT, 'known_findings.json')
    try:
        with open(path) as f:
            data = json.load(f)
    except FileNotFoundError:
        return {}
    return {e['signature']: e for e in data.get('findings', [])
            if e.get('property') == prop_id}


# --------------------------------------------------------------------------
# shard worker

class _Acc:
    def __init__(self) -> None:
        self.evaluations = 0
        self.nontrivial: set[str] = set()
        self.labels: Counter[str] = Counter()
        self.samples: list[Any] = []
        self.nt_samples: list[Any] = []
        self.known: Counter[str] = Counter()
        self.counters: Counter[str] = Counter()
        #: signature -> {'case':…, 'message':…}
        self.violations: dict[str, dict[str, Any]] = {}

    def add(self, out: CaseOut, known: dict[str, Any]) -> list[Failure]:
        self.evaluations += 1
        for name in out.labels:
            self.labels[name] += 1
        for name, n in out.counters.items():
            self.counters[name] += n
        if out.nontrivial is not None:
            if out.nontrivial not in self.nontrivial \
                    and len(self.nt_samples) < 3 and out.sample is not None:
                self.nt_samples.append(out.sample)
            self.nontrivial.add(out.nontrivial)
        elif out.sample is not None and len(self.samples) < 2:
            self.samples.append(out.sample)
        unknown: list[Failure] = []
        for f in out.failures:
            if f.signature in known:
                self.known[f.signature] += 1
            else:
                unknown.append(f)
        return unknown

    def export(self) -> dict[str, Any]:
        return {'evaluations': self.evaluations,
                'nontrivial': sorted(self.nontrivial),
                'labels': dict(self.labels),
                'samples': self.nt_samples + self.samples,
                'known': dict(self.known),
                'counters': dict(self.counters),
                'violations': self.violations}


def _load_module(mod_name: str) -> Any:
    import importlib
    return importlib.import_module(mod_name)


def _shard_seed(seed: int, shard: int, rnd: int = 0) -> int:
    h = hashlib.sha256(f'{seed}:{shard}:{rnd}'.encode()).digest()
    return int.from_bytes(h[:8], 'big')


class CaseCpuBudget(BaseException):
    """one case used more CPU than any legitimate case can"""


_HANG: dict[str, Any] = {}


def _on_case_budget(signum: int, frame: Any) -> None:
    where = '?'
    for fs in traceback.extract_stack(frame):
        if '/pymap/' in fs.filename:
            where = f'{fs.filename.split("/pymap/")[-1]}:{fs.name}'
    if where == '?':
        fs = traceback.extract_stack(frame)[-1]
        where = f'{fs.filename.split("/")[-1]}:{fs.name}'
    _HANG.setdefault('where', where)
    raise CaseCpuBudget()


def run_case_guarded(mod: Any, case: Any) -> CaseOut:
    """mod.run_case(case) under a per-case CPU watchdog (ITIMER_VIRTUAL,
    repeating). A server coroutine that spins without ever yielding would
    otherwise hang the whole check; asyncio stores a BaseException raised
    inside a task in that task, so the hit is also recorded in _HANG and
    turned into a failure afterwards. Modules that own SIGVTALRM themselves
    set OWN_CPU_BUDGET."""
    import signal
    if getattr(mod, 'OWN_CPU_BUDGET', False):
        return mod.run_case(case)
    budget = float(getattr(mod, 'CASE_CPU_BUDGET', 120.0))
    _HANG.clear()
    old = signal.signal(signal.SIGVTALRM, _on_case_budget)
    signal.setitimer(signal.ITIMER_VIRTUAL, budget, budget)
    out: CaseOut | None = None
    try:
        out = mod.run_case(case)
    except CaseCpuBudget:
        pass
    finally:
        signal.setitimer(signal.ITIMER_VIRTUAL, 0)
        signal.signal(signal.SIGVTALRM, old)
    if out is None:
        out = CaseOut()
    if _HANG:
        out.fail('hang:' + _HANG['where'],
                 f'one case used more than {budget:.0f}s of CPU, last seen '
                 f'in {_HANG["where"]}')
        _HANG.clear()
    return out



def _run_shard(args: tuple[str, str, int, int, int, str]) -> dict[str, Any]:
    mod_name, tier, seed, shard, nshards, part = args
    try:
        import faulthandler
        import signal
        faulthandler.register(signal.SIGUSR1, all_threads=True)
    except Exception:
        pass
    try:
        return _run_shard_inner(mod_name, tier, seed, shard, nshards, part)
    except BaseException:
        return {'harness_error': traceback.format_exc(), 'shard': shard}


def _run_shard_inner(mod_name: str, tier: str, seed: int, shard: int,
                     nshards: int, part: str) -> dict[str, Any]:
    mod = _load_module(mod_name)
    known = load_known(mod.ID)
    acc = _Acc()
    t0 = time.time()
    if hasattr(mod, 'shard_setup'):
        mod.shard_setup(shard)
    try:
        if part == 'enum':
            for i, case in enumerate(mod.enumerate_cases(tier)):
                if i % nshards != shard:
                    continue
                case = canon(case)
                out = run_case_guarded(mod, case)
                for f in acc.add(out, known):
                    if f.signature not in acc.violations:
                        acc.violations[f.signature] = {
                            'case': case, 'message': f.message}
        elif part == 'fuzz':
            from . import fuzz
            fuzz_stats = fuzz.run_fuzz_shard(mod, mod_name, tier, seed, shard,
                                             acc, known)
        else:
            _run_hypothesis(mod, tier, seed, shard, acc, known)
    finally:
        if hasattr(mod, 'shard_teardown'):
            mod.shard_teardown(shard)
    res = acc.export()
    if part == 'fuzz':
        res['fuzz'] = fuzz_stats
    res['shard'] = shard
    res['wall_s'] = time.time() - t0
    return res


def _run_hypothesis(mod: Any, tier: str, seed: int, shard: int, acc: _Acc,
                    known: dict[str, Any]) -> None:
    import hypothesis
    from hypothesis import HealthCheck, Phase, given, settings

    n_examples = mod.BUDGET[tier][0]
    shrink_budget = 45.0 if tier == 'quick' else 200.0
    suppressed: set[str] = set()  # found in an earlier round of this shard
    max_rounds = 3 if tier == 'quick' else 5
    for rnd in range(max_rounds):
        state: dict[str, Any] = {'best': None, 'sig': None, 'msg': None,
                                 't_first': None}

        def test(case: Any) -> None:
            case = canon(case)
            if state['t_first'] is not None \
                    and time.time() - state['t_first'] > shrink_budget:
                raise _StopShrink()   # keep the best reproduction so far
            out = run_case_guarded(mod, case)
            if state['t_first'] is None:
                unknown = acc.add(out, known)
            else:  # shrinking: do not count these runs as evidence
                unknown = [f for f in out.failures
                           if f.signature not in known]
            unknown = [f for f in unknown if f.signature not in suppressed]
            if state['sig'] is not None:
                # while shrinking, stay on the same root cause
                unknown = [f for f in unknown if f.signature == state['sig']]
            if unknown and getattr(out, 'nondeterministic', False):
                # the case's schedule is not the harness's (real threads):
                # it may not fail again, so it is neither shrunk nor replayed
                # by Hypothesis - recorded as it is, and the search goes on
                for f in unknown:
                    acc.violations.setdefault(
                        f.signature, {'case': case, 'message': f.message
                                      + ' [schedule owned by the OS: replay '
                                      'may need several runs]'})
                    suppressed.add(f.signature)
                return
            if unknown:
                f = unknown[0]
                if state['t_first'] is None:
                    state['t_first'] = time.time()
                    state['sig'] = f.signature
                state['best'] = case
                state['best_hash'] = case_hash(case)
                state['msg'] = f.message
                raise AssertionError(f.signature)

        wrapped = given(mod.strategy(tier))(test)
        wrapped = hypothesis.seed(_shard_seed(seed, shard, rnd))(wrapped)
        wrapped = settings(
            max_examples=n_examples, database=None, deadline=None,
            derandomize=False, report_multiple_bugs=False,
            suppress_health_check=list(HealthCheck),
            phases=[Phase.generate, Phase.shrink],
            print_blob=False)(wrapped)
        try:
            wrapped()
        except (Exception, _StopShrink):
            if state['sig'] is None:
                raise
            acc.violations.setdefault(
                state['sig'], {'case': state['best'], 'message': state['msg']})
            suppressed.add(state['sig'])
            continue
        break


# --------------------------------------------------------------------------
# parent

def _write_replay(prop_id: str, signature: str, info: dict[str, Any]) -> str:
    rdir = os.path.join(ROOT, 'replays', prop_id, 'found')
    if os.environ.get('VERIF_SCRATCH_OUT'):   # runs against a mutant
        rdir = os.path.join(os.environ['VERIF_SCRATCH_OUT'], 'found',
                            prop_id)
    os.makedirs(rdir, exist_ok=True)
    h = hashlib.sha1(signature.encode()).hexdigest()[:12]
    path = os.path.join(rdir, f'{h}.json')
    with open(path, 'w') as f:
        f.write(jdump({'property': prop_id, 'signature': signature,
                       'message': info['message'], 'case': info['case']},
                      indent=1))
    return os.path.relpath(path, ROOT)


def _regression_cases(prop_id: str) -> list[tuple[str, Any]]:
    rdir = os.path.join(ROOT, 'replays', prop_id)
    out = []
    if os.path.isdir(rdir):
        for name in sorted(os.listdir(rdir)):
            if name.endswith('.json'):
                with open(os.path.join(rdir, name)) as f:
                    rec = jload(f.read())
                out.append((name, rec['case']))
    return out


def _validate_evidence(ev: dict[str, Any]) -> None:
    try:
        import jsonschema
    except ImportError:
        return
    schema_path = os.path.join(ROOT, 'harness', 'EVIDENCE.schema.json')
    with open(schema_path) as f:
        schema = json.load(f)
    jsonschema.validate(ev, schema)


def run_property(mod_name: str, tier: str, seed: int,
                 replay: str | None = None) -> int:
    t0 = time.time()
    mod = _load_module(mod_name)
    prop_id = mod.ID
    known = load_known(prop_id)

    if replay is not None:
        with open(replay) as f:
            rec = jload(f.read())
        if hasattr(mod, 'shard_setup'):
            mod.shard_setup(0)
        out = run_case_guarded(mod, rec["case"])
        tries = 1
        while getattr(out, 'nondeterministic', False) and not out.failures \
                and tries < 25:
            out = run_case_guarded(mod, rec["case"])   # OS-owned schedule
            tries += 1
        if hasattr(mod, 'shard_teardown'):
            mod.shard_teardown(0)
        bad = [f for f in out.failures if f.signature not in known]
        for f in out.failures:
            tag = 'KNOWN' if f.signature in known else 'FAIL'
            print(f'{tag} {f.signature}: {f.message}')
        if bad:
            print(f'VIOLATION property={prop_id} replay={replay}')
            return 1
        print('replay: no violation')
        return 0

    total = _Acc()
    harness_errors: list[str] = []

    # 1. regression tier: committed replays, run in-process, first
    n_regress = 0
    if hasattr(mod, 'shard_setup'):
        mod.shard_setup(99)
    for name, case in _regression_cases(prop_id):
        out = run_case_guarded(mod, case)
        n_regress += 1
        for f in total.add(out, known):
            total.violations.setdefault(
                f.signature, {'case': case, 'message': f.message})
    if hasattr(mod, 'shard_teardown'):
        mod.shard_teardown(99)

    # 2/3. exhaustive and generated parts, sharded
    jobs = []
    nshards = mod.BUDGET[tier][1] if len(mod.BUDGET[tier]) > 1 else NSHARDS
    if hasattr(mod, 'enumerate_cases'):
        jobs += [(mod_name, tier, seed, s, NSHARDS, 'enum')
                 for s in range(NSHARDS)]
    if hasattr(mod, 'strategy') and mod.BUDGET[tier][0] > 0:
        jobs += [(mod_name, tier, seed, s, nshards, 'hyp')
                 for s in range(nshards)]
    fuzz_note: Any = None
    if hasattr(mod, 'FUZZ') and mod.FUZZ[tier][0] > 0:
        from . import fuzz
        if fuzz.available():
            jobs += [(mod_name, tier, seed, s, mod.FUZZ[tier][1], 'fuzz')
                     for s in range(mod.FUZZ[tier][1])]
            fuzz_note = {'engine': 'atheris/libFuzzer, coverage-guided, '
                         'target = fuzz_decode + run_case (same oracle)',
                         'shards': mod.FUZZ[tier][1], 'execs': 0, 'rounds': 0,
                         'crash_inputs': 0, 'cov': 0, 'ft': 0, 'corpus': 0}
        else:
            fuzz_note = {'engine': 'atheris not importable (setup.sh installs '
                         'it into .deps): coverage-guided part skipped'}
            print('warning: atheris not available, fuzz part skipped',
                  file=sys.stderr)
    only = os.environ.get('VERIF_ONLY')   # debugging aid: hyp | enum | fuzz
    if only:
        jobs = [j for j in jobs if j[5] == only]
    ctx = multiprocessing.get_context('fork')
    results: list[dict[str, Any]] = []
    if jobs:
        with ctx.Pool(min(NSHARDS, len(jobs)), maxtasksperchild=1) as pool:
            for res in pool.imap_unordered(_run_shard, jobs):
                results.append(res)
    exhaustive_done = hasattr(mod, 'enumerate_cases')
    for res in sorted(results, key=lambda r: r.get('shard', 0)):
        if 'harness_error' in res:
            harness_errors.append(res['harness_error'])
            continue
        if 'fuzz' in res and fuzz_note is not None:
            for k in ('execs', 'rounds', 'crash_inputs'):
                fuzz_note[k] += res['fuzz'][k]
            for k in ('cov', 'ft', 'corpus'):
                fuzz_note[k] = max(fuzz_note[k], res['fuzz'][k])
        total.evaluations += res['evaluations']
        total.nontrivial.update(res['nontrivial'])
        total.labels.update(res['labels'])
        total.known.update(res['known'])
        total.counters.update(res['counters'])
        for s in res['samples']:
            if len(total.samples) < 6:
                total.samples.append(s)
        for sig, info in res['violations'].items():
            total.violations.setdefault(sig, info)

    if harness_errors:
        print('HARNESS ERROR (no verdict):', file=sys.stderr)
        print(harness_errors[0], file=sys.stderr)
        return 2

    for sig, n in sorted(total.known.items()):
        what = known[sig].get('what', '')
        if len(what) > 160:
            what = what[:157] + '...'
        print(f'KNOWN-FINDING: property={prop_id} {sig} ({n} cases) {what}')

    rc = 0
    for sig, info in sorted(total.violations.items()):
        path = _write_replay(prop_id, sig, info)
        print(f'signature: {sig}\n  {info["message"]}')
        print(f'VIOLATION property={prop_id} replay={path}')
        rc = 1

    coverage: dict[str, Any] = {
        'evaluations': total.evaluations,
        'distinct_nontrivial': len(total.nontrivial),
        'rule': mod.RULE,
        'samples': total.samples or ['(no sample recorded)'],
        'labels': dict(sorted(total.labels.items())),
        'excluded_known': dict(total.known),
        'regression_replays': n_regress,
        'shards': len(jobs),
    }
    coverage.update({k: v for k, v in sorted(total.counters.items())})
    if exhaustive_done and hasattr(mod, 'EXHAUSTIVE_NOTE'):
        coverage['exhaustive_subspace'] = mod.EXHAUSTIVE_NOTE
    if fuzz_note is not None:
        coverage['fuzz'] = fuzz_note
    if hasattr(mod, 'coverage_extra'):
        coverage.update(mod.coverage_extra(tier))
    ev = {
        'property_id': prop_id, 'tier': tier, 'seed': seed,
        'level': mod.LEVEL, 'coverage': coverage,
        'assumptions': list(getattr(mod, 'ASSUMPTIONS', [])),
        'wall_s': round(time.time() - t0, 2),
        'violations': len(total.violations),
    }
    _validate_evidence(ev)
    evdir = os.path.join(ROOT, 'evidence')
    if os.environ.get('VERIF_SCRATCH_OUT'):
        # a run against a mutant (tools/run_seeded.py) must not overwrite the
        # evidence of the real tree
        evdir = os.path.join(os.environ['VERIF_SCRATCH_OUT'], 'evidence')
    os.makedirs(evdir, exist_ok=True)
    with open(os.path.join(evdir, f'{prop_id}.json'), 'w') as f:
        json.dump(ev, f, indent=1, sort_keys=True, default=repr)
        f.write('\n')
    print(f'{prop_id} {tier}: evaluations={total.evaluations} '
          f'nontrivial={len(total.nontrivial)} '
          f'known={sum(total.known.values())} '
          f'violations={len(total.violations)} wall={ev["wall_s"]}s')
    return rc


def main(argv: list[str]) -> int:
    import argparse
    ap = argparse.ArgumentParser()
    ap.add_argument('prop')
    ap.add_argument('--tier', default=os.environ.get('VERIF_TIER', 'quick'),
                    choices=['quick', 'thorough'])
    ap.add_argument('--replay')
    ns = ap.parse_args(argv)
    seed = int(os.environ.get('VERIF_SEED', '1') or '1')
    mods = {}
    for name in os.listdir(os.path.join(ROOT, 'props')):
        if name.endswith('.py') and name[0] == 'c' and name[1:3].isdigit():
            mods['C' + name[1:3]] = 'props.' + name[:-3]
    if ns.prop not in mods:
        print(f'unknown property {ns.prop}', file=sys.stderr)
        return 2
    try:
        return run_property(mods[ns.prop], ns.tier, seed, ns.replay)
    except Exception:
        traceback.print_exc()
        return 2
