"""Construction of fresh pymap backends on the harness-owned loop."""
from __future__ import annotations

import os
import shutil
import tempfile
from argparse import Namespace
from typing import Any

from pysasl.hashing import BuiltinHash

from pymap.concurrent import Subsystem

from .simloop import Sim

__all__ = ['Args', 'HASH', 'dict_sim', 'maildir_sim', 'USERS', 'scratch_dir']

HASH = BuiltinHash(hash_name='sha1', salt_len=0, rounds=1)

#: name -> (password, roles)
USERS: dict[str, tuple[str, frozenset[str]]] = {
    'alice': ('pwalice', frozenset()),
    'bob': ('pwbob', frozenset()),
    'root': ('pwroot', frozenset({'admin'})),
}


class Args(Namespace):
    debug = False
    demo_data = False
    demo_user = 'demouser'
    demo_password = 'demopass'

    def __getattr__(self, key: str) -> Any:
        return None


def scratch_dir(prefix: str = 'pymapv-', base: str | None = None) -> str:
    return tempfile.mkdtemp(prefix=prefix, dir=base)


def dict_sim(*, demo: bool = False, users: Any = None, sieve: bool = False,
             **overrides: Any) -> Sim:
    """A Sim with a fresh dict backend. ``users`` maps name ->
    (password, roles); default :data:`USERS`."""
    from pymap.backend.dict import DictBackend, Identity
    from pymap.user import UserMetadata, Passwords
    sim = Sim()
    args = Args()
    if demo:
        args.demo_data = True
    overrides.setdefault('hash_context', HASH)
    overrides.setdefault('invalid_user_sleep', 0.0)
    overrides.setdefault('cpu_subsystem', Subsystem.for_asyncio())
    if 'tls_enabled' in overrides:
        args.tls = overrides.pop('tls_enabled')
    else:
        args.tls = False

    async def setup() -> Any:
        backend, config = await DictBackend.init(args, **overrides)
        config.apply_context()
        login = backend.login
        pw = Passwords(config)
        for name, (password, roles) in (USERS if users is None
                                        else users).items():
            ident = Identity(name, login, None, {'admin'})
            hashed = await pw.hash_password(password)
            await ident.set(UserMetadata(config, name, password=hashed,
                                         roles=frozenset(roles)))
        return backend, config
    backend, config = sim.run(setup())
    sim.backend, sim.config, sim.login = backend, config, backend.login
    sim.kind = 'dict'
    sim.add_imap(backend.login, config)
    if sieve:
        sim.add_sieve(backend.login, config)
    return sim


def maildir_sim(base_dir: str, *, layout: str = '++', users: Any = None,
                provision: bool = True, sieve: bool = False,
                **overrides: Any) -> Sim:
    """A Sim with a maildir backend on ``base_dir`` (asyncio subsystem, so
    every step runs on the harness loop). With ``provision=False`` the
    directory is reused as-is (restart)."""
    from pymap.backend.maildir import Config, Login, Identity
    from pymap.user import UserMetadata, Passwords
    sim = Sim()
    if overrides.pop('threads', False):
        # what the command line does: every backend call runs in a worker
        # thread (threading subsystem: thread-local event loops, threading
        # read-write locks and events)
        from .simloop import CountingExecutor
        sim.executor = CountingExecutor(4)
        overrides['subsystem'] = sim.executor.count_execute(
            Subsystem.for_threading(sim.executor))
    overrides.setdefault('hash_context', HASH)
    overrides.setdefault('invalid_user_sleep', 0.0)
    overrides.setdefault('cpu_subsystem', Subsystem.for_asyncio())
    overrides.setdefault('subsystem', Subsystem.for_asyncio())
    overrides.setdefault('tls_enabled', False)
    config = Config(Args(), base_dir=base_dir, layout=layout, colon=None,
                    host=None, port=143, **overrides)
    login = Login(config)

    async def setup() -> None:
        config.apply_context()
        if not provision:
            return
        pw = Passwords(config)
        for name, (password, roles) in (USERS if users is None
                                        else users).items():
            ident = Identity(config, login.tokens, name, None, {'admin'})
            hashed = await pw.hash_password(password)
            await ident.set(UserMetadata(config, name, password=hashed,
                                         roles=frozenset(roles)))
    os.makedirs(base_dir, exist_ok=True)
    sim.run(setup())
    sim.backend, sim.config, sim.login = None, config, login
    sim.kind = 'maildir'
    sim.base_dir = base_dir
    sim.add_imap(login, config)
    if sieve:
        sim.add_sieve(login, config)
    return sim


def rmtree(path: str) -> None:
    shutil.rmtree(path, ignore_errors=True)


def set_password(sim: Sim, name: str, password: str,
                 roles: Any = ()) -> None:
    """Replace the stored secret of an existing user, the way the admin
    interface does (Identity.set with a freshly hashed password)."""
    from pymap.user import UserMetadata, Passwords
    config, login = sim.config, sim.login

    async def go() -> None:
        pw = Passwords(config)
        hashed = await pw.hash_password(password)
        if sim.kind == 'dict':
            from pymap.backend.dict import Identity
            ident: Any = Identity(name, login, None, {'admin'})
        else:
            from pymap.backend.maildir import Identity as MIdentity
            ident = MIdentity(config, login.tokens, name, None, {'admin'})
        prev = None
        try:
            prev = (await ident.get()).entity_tag
        except Exception:
            pass
        await ident.set(UserMetadata(config, name, password=hashed,
                                     roles=frozenset(roles),
                                     previous_entity_tag=prev))
    sim.run(go())
