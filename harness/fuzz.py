"""Coverage-guided second engine: atheris (libFuzzer) over the same oracles.

A property module opts in with

    FUZZ = {'quick': (runs_per_shard, shards), 'thorough': (...)}
    def fuzz_decode(data: bytes) -> case | None     # bytes -> a JSON-able case
    def fuzz_seeds() -> list[bytes]                 # optional starting corpus
    FUZZ_DICT = [b'token', ...]                     # optional dictionary

The *oracle is the module's own run_case*: the fuzz target decodes the bytes
into a case, runs it, and raises when run_case reports a failure whose
signature is neither a listed known finding nor suppressed for this round, so
that libFuzzer saves the input. The parent turns every saved input back into a
case (fuzz_decode is deterministic), re-runs it in-process to obtain the
signature and message, and handles it exactly like a Hypothesis find: a
library-free JSON replay under replays/<ID>/found/.

libFuzzer stops at the first crash, so a shard runs up to three rounds; the
signatures found so far are passed to the next round, where the target counts
them and carries on (exclusion by construction, the corpus is kept).

This file is both the parent-side helper (run_fuzz_shard) and the worker
(python -m harness.fuzz <module> <workdir> <libFuzzer flags...>).
"""
from __future__ import annotations

import json
import os
import re
import shutil
import subprocess
import sys
import tempfile
import time
from typing import Any

ROOT = os.path.dirname(os.path.dirname(os.path.abspath(__file__)))
DEPS = os.path.join(ROOT, '.deps')


def available() -> bool:
    r = subprocess.run([sys.executable, '-c', 'import atheris'],
                       env=_env(), capture_output=True)
    return r.returncode == 0


def _env() -> dict[str, str]:
    env = dict(os.environ)
    env['PYTHONPATH'] = DEPS + os.pathsep + env.get('PYTHONPATH', '')
    return env


# --------------------------------------------------------------------------
# parent side

def run_fuzz_shard(mod: Any, mod_name: str, tier: str, seed: int, shard: int,
                   acc: Any, known: dict[str, Any]) -> dict[str, Any]:
    """Runs one libFuzzer campaign (up to 3 rounds) in a subprocess and
    merges what it explored into acc. Returns engine statistics."""
    from .runner import canon, run_case_guarded, jload
    runs = mod.FUZZ[tier][0]
    work = tempfile.mkdtemp(prefix='fuzz-%s-' % mod.ID)
    corpus = os.path.join(work, 'corpus')
    crashes = os.path.join(work, 'crashes')
    os.makedirs(corpus)
    os.makedirs(crashes)
    stats: dict[str, Any] = {'execs': 0, 'rounds': 0, 'crash_inputs': 0,
                             'cov': 0, 'ft': 0, 'corpus': 0}
    try:
        seeds = list(mod.fuzz_seeds()) if hasattr(mod, 'fuzz_seeds') else []
        for i, s in enumerate(seeds):
            with open(os.path.join(corpus, 'seed%04d' % i), 'wb') as f:
                f.write(s)
        dict_path = None
        if getattr(mod, 'FUZZ_DICT', None):
            dict_path = os.path.join(work, 'dict')
            with open(dict_path, 'w') as f:
                for tok in mod.FUZZ_DICT:
                    f.write('"' + ''.join('\\x%02x' % b for b in tok)
                            + '"\n')
        suppressed: list[str] = []
        left = runs
        for rnd in range(3):
            if left <= 0:
                break
            statf = os.path.join(work, 'stats%d.json' % rnd)
            cmd = [sys.executable, '-m', 'harness.fuzz', mod_name, statf,
                   '-runs=%d' % left,
                   '-seed=%d' % (1 + (seed * 1000003 + shard * 101 + rnd)
                                 % 2000000000),
                   '-max_len=%d' % getattr(mod, 'FUZZ_MAX_LEN', 2048),
                   '-timeout=%d' % getattr(mod, 'FUZZ_TIMEOUT', 300),
                   '-rss_limit_mb=6000', '-print_final_stats=1',
                   '-artifact_prefix=' + crashes + '/']
            if dict_path:
                cmd.append('-dict=' + dict_path)
            cmd.append(corpus)
            env = _env()
            env['FUZZ_SUPPRESS'] = json.dumps(suppressed)
            r = subprocess.run(cmd, env=env, capture_output=True, cwd=ROOT)
            log = r.stderr.decode('utf-8', 'replace')
            stats['rounds'] += 1
            st: dict[str, Any] = {}
            if os.path.exists(statf):
                with open(statf) as f:
                    st = jload(f.read())
            done = int(st.get('evaluations', 0))
            stats['execs'] += done
            left -= max(done, 1)
            m = None
            for m in re.finditer(r'cov: (\d+) ft: (\d+) corp: (\d+)', log):
                pass
            if m:
                stats['cov'] = max(stats['cov'], int(m.group(1)))
                stats['ft'] = max(stats['ft'], int(m.group(2)))
                stats['corpus'] = max(stats['corpus'], int(m.group(3)))
            # what the worker explored
            acc.evaluations += done
            for k, v in st.get('labels', {}).items():
                acc.labels[k] += v
            for k, v in st.get('counters', {}).items():
                acc.counters[k] += v
            for k, v in st.get('known', {}).items():
                acc.known[k] += v
            acc.nontrivial.update(st.get('nontrivial', []))
            for s in st.get('samples', []):
                if len(acc.nt_samples) < 3:
                    acc.nt_samples.append(s)
            arts = sorted(os.listdir(crashes))
            if not arts:
                if r.returncode != 0 and 'Done ' not in log:
                    raise RuntimeError(
                        'fuzz worker failed without an artifact:\n'
                        + log[-3000:])
                break
            new = 0
            for a in arts:
                path = os.path.join(crashes, a)
                with open(path, 'rb') as f:
                    data = f.read()
                os.unlink(path)
                stats['crash_inputs'] += 1
                case = mod.fuzz_decode(data)
                if case is None:
                    continue
                case = canon(case)
                out = run_case_guarded(mod, case)
                fails = [f for f in out.failures if f.signature not in known
                         and f.signature not in suppressed]
                if not fails and a.startswith(('timeout-', 'oom-')):
                    sig = 'fuzz-%s' % a.split('-')[0]
                    acc.violations.setdefault(sig, {
                        'case': case, 'message':
                        f'libFuzzer reported {a.split("-")[0]} for this case'})
                    suppressed.append(sig)
                    new += 1
                for f in fails:
                    acc.violations.setdefault(
                        f.signature, {'case': case, 'message': f.message})
                    suppressed.append(f.signature)
                    new += 1
            if not new:
                # the saved input does not reproduce in the parent: report,
                # never drop silently
                raise RuntimeError(
                    'fuzz worker saved an input that does not reproduce:\n'
                    + log[-3000:])
    finally:
        shutil.rmtree(work, ignore_errors=True)
    return stats


# --------------------------------------------------------------------------
# worker side

def _worker(argv: list[str]) -> None:
    mod_name, statf = argv[1], argv[2]
    flags = argv[3:]
    import atheris
    # (the 'RegEx' hook of atheris 3.1 cannot handle bytes patterns - pymap's
    # are all bytes - so regular expressions give no gradient; the dictionary
    # and the seed corpus stand in for it)
    try:
        atheris.enabled_hooks.add('str')
    except Exception:
        pass
    with atheris.instrument_imports(include=['pymap'],
                                    enable_loader_override=False):
        import pymap  # noqa: F401
        import pymap.imap  # noqa: F401
        import pymap.imap.state  # noqa: F401
        import pymap.parsing.commands  # noqa: F401
        import pymap.mime  # noqa: F401
        import pymap.message  # noqa: F401
        import pymap.search  # noqa: F401
        import pymap.listtree  # noqa: F401
        import pymap.selected  # noqa: F401
        import pymap.backend.dict  # noqa: F401
        import pymap.backend.session  # noqa: F401
        import pymap.sieve.manage  # noqa: F401
    import importlib
    from .runner import load_known, jdump, canon
    mod = importlib.import_module(mod_name)
    known = load_known(mod.ID)
    suppressed = set(json.loads(os.environ.get('FUZZ_SUPPRESS', '[]')))
    st: dict[str, Any] = {'evaluations': 0, 'labels': {}, 'counters': {},
                          'known': {}, 'nontrivial': [], 'samples': [],
                          'undecodable': 0}
    nts: set[str] = set()
    t_last = [time.time()]

    def flush() -> None:
        st['nontrivial'] = sorted(nts)
        tmp = statf + '.tmp'
        with open(tmp, 'w') as f:
            f.write(jdump(st))
        os.replace(tmp, statf)

    def one(data: bytes) -> None:
        case = mod.fuzz_decode(data)
        if case is None:
            st['undecodable'] += 1
            return
        case = canon(case)
        out = mod.run_case(case)
        st['evaluations'] += 1
        for name in out.labels:
            st['labels'][name] = st['labels'].get(name, 0) + 1
        for name, n in out.counters.items():
            st['counters'][name] = st['counters'].get(name, 0) + n
        if out.nontrivial is not None:
            if out.nontrivial not in nts and len(st['samples']) < 3 \
                    and out.sample is not None:
                st['samples'].append(out.sample)
            if len(nts) < 200000:
                nts.add(out.nontrivial)
        bad = []
        for f in out.failures:
            if f.signature in known:
                st['known'][f.signature] = \
                    st['known'].get(f.signature, 0) + 1
            elif f.signature in suppressed:
                st['counters']['suppressed-earlier-find'] = \
                    st['counters'].get('suppressed-earlier-find', 0) + 1
            else:
                bad.append(f)
        now = time.time()
        if bad or now - t_last[0] > 2.0 or st['evaluations'] % 200 == 0:
            t_last[0] = now
            flush()
        if bad:
            raise AssertionError(bad[0].signature + ': ' + bad[0].message)

    flush()
    atheris.Setup([sys.argv[0]] + flags, one)
    try:
        atheris.Fuzz()
    finally:
        flush()


if __name__ == '__main__':
    _worker(sys.argv)
