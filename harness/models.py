"""Reference models written from the RFCs; nothing here calls pymap."""
from __future__ import annotations

import base64
import re
from typing import Any

__all__ = ['mutf7_encode', 'mutf7_decode', 'list_match', 'ASTRING_ATOM_RE',
           'spellings']


# -- modified UTF-7, RFC 3501 5.1.3 ------------------------------------------

def mutf7_encode(name: str) -> bytes:
    out = bytearray()
    run: list[str] = []

    def flush() -> None:
        if run:
            raw = ''.join(run).encode('utf-16-be')
            b64 = base64.b64encode(raw).rstrip(b'=').replace(b'/', b',')
            out.extend(b'&' + b64 + b'-')
            run.clear()
    for ch in name:
        cp = ord(ch)
        if 0x20 <= cp <= 0x7e:
            flush()
            if ch == '&':
                out.extend(b'&-')
            else:
                out.append(cp)
        else:
            run.append(ch)
    flush()
    return bytes(out)


def mutf7_decode(data: bytes) -> str:
    """Strict decoder; raises ValueError on anything RFC 3501 forbids."""
    out: list[str] = []
    i = 0
    n = len(data)
    while i < n:
        c = data[i]
        if c == 0x26:
            j = data.find(b'-', i + 1)
            if j < 0:
                raise ValueError('unterminated shift')
            chunk = data[i + 1:j]
            if not chunk:
                out.append('&')
            else:
                if not re.fullmatch(rb'[A-Za-z0-9+,]+', chunk):
                    raise ValueError('bad base64 alphabet')
                b64 = chunk.replace(b',', b'/')
                b64 += b'=' * (-len(b64) % 4)
                raw = base64.b64decode(b64)
                if len(raw) % 2:
                    raw = raw[:-1]
                out.append(raw.decode('utf-16-be'))
            i = j + 1
        elif 0x20 <= c <= 0x7e:
            out.append(chr(c))
            i += 1
        else:
            raise ValueError('byte outside printable ASCII')
    return ''.join(out)


# -- LIST pattern matching, RFC 3501 6.3.8 (no regex) --------------------------

def list_match(pattern: str, name: str, delim: str = '/') -> bool:
    """'*' matches zero or more of any character, '%' zero or more of any
    character except the hierarchy delimiter; INBOX is case-insensitive."""
    memo: dict[tuple[int, int], bool] = {}

    def go(pi: int, ni: int) -> bool:
        key = (pi, ni)
        if key in memo:
            return memo[key]
        if pi == len(pattern):
            res = ni == len(name)
        else:
            pc = pattern[pi]
            if pc == '*':
                res = go(pi + 1, ni) or (ni < len(name) and go(pi, ni + 1))
            elif pc == '%':
                res = go(pi + 1, ni) or (ni < len(name) and name[ni] != delim
                                         and go(pi, ni + 1))
            else:
                res = ni < len(name) and name[ni] == pc and go(pi + 1, ni + 1)
        memo[key] = res
        return res
    return go(0, 0)


# -- wire spellings of one string value -----------------------------------------

#: ASTRING-CHAR = ATOM-CHAR / resp-specials  (RFC 3501 section 9)
ASTRING_ATOM_RE = re.compile(rb'[\x21\x23\x24\x26\x27\x2b-\x5b\x5d-\x7a\x7c\x7e'
                             rb'\x7d]+')


def _atom_ok(v: bytes, astring: bool = True) -> bool:
    if not v:
        return False
    for c in v:
        if c <= 0x20 or c >= 0x7f or c in b'(){%*"\\':
            return False
        if c == 0x5d and not astring:
            return False
    return True


def spellings(v: bytes, *, astring: bool = True,
              literal8: bool = False) -> list[tuple[str, bytes]]:
    """All legal RFC 3501 spellings of string value v as (label, wire). A
    synchronising literal is written ``{n}\\r\\n<data>``; the caller splits it
    into line + continuation."""
    out: list[tuple[str, bytes]] = []
    if _atom_ok(v, astring) and v.upper() != b'NIL':
        out.append(('atom', v))
    if all(0 < c < 0x80 and c not in (0x0d, 0x0a) for c in v):
        q = v.replace(b'\\', b'\\\\').replace(b'"', b'\\"')
        out.append(('quoted', b'"' + q + b'"'))
    if b'\x00' not in v:
        out.append(('literal', b'{%d}\r\n' % len(v) + v))
        out.append(('literal+', b'{%d+}\r\n' % len(v) + v))
    return out
