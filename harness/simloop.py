"""Deterministic in-process driver for pymap (DESIGN.md section 2.1).

The harness is *synchronous* code that owns an asyncio event loop and runs it
one iteration at a time (``loop.call_soon(loop.stop); loop.run_forever()``).
Only server tasks live on the loop, so "nothing is runnable" is simply
``not loop._ready``; timers are driven by a virtual clock.
"""
from __future__ import annotations

import asyncio
import os
import socket
import weakref
from contextlib import closing, AsyncExitStack
from typing import Any, Callable

os.environ.setdefault('FQDN', 'localhost')  # keeps getfqdn() out of greetings

from proxyprotocol.sock import SocketInfoLocal  # noqa: E402

__all__ = ['VLoop', 'GateWriter', 'Conn', 'Sim', 'NoQuiescence']


class CountingExecutor(__import__('concurrent.futures').futures.ThreadPoolExecutor):
    """ThreadPoolExecutor for a threaded backend. ``inflight`` counts the
    Subsystem.execute() calls that have not yet *resumed on the harness loop*
    (see count_execute) - counting in the worker thread would open a window
    in which the job is finished but its result not yet queued."""

    def __init__(self, max_workers: int = 4) -> None:
        super().__init__(max_workers)
        self.inflight = 0
        self.waited = 0.0

    def count_execute(self, subsystem: Any) -> Any:
        orig = subsystem.execute
        ex = self

        async def execute(future: Any) -> Any:
            ex.inflight += 1
            try:
                return await orig(future)
            finally:
                ex.inflight -= 1
        subsystem.execute = execute
        return subsystem


class NoQuiescence(Exception):
    """The loop did not become idle within the step budget."""


class VLoop(asyncio.SelectorEventLoop):
    """Selector loop whose clock only moves when the harness says so."""

    def __init__(self) -> None:
        super().__init__()
        self._vt = 1000.0

    def time(self) -> float:  # type: ignore[override]
        return self._vt


class _FakeSocket:
    family = socket.AF_INET
    type = socket.SOCK_STREAM

    def fileno(self) -> int:
        return 7


class GateWriter:
    """Stands in for asyncio.StreamWriter. ``drain`` blocks while the gate is
    closed (peer back-pressure); ``reset`` makes writes fail like a dead peer.
    """

    def __init__(self, peer: tuple[str, int] = ('1.2.3.4', 1234)) -> None:
        self.buf = bytearray()
        self.all = bytearray()
        self.closed = False
        self.reset = False
        self.gate = asyncio.Event()
        self.gate.set()
        self.peer = peer
        self.tls = False
        self.drains = 0

    def write(self, data: bytes) -> None:
        if self.reset:
            raise ConnectionResetError()
        self.buf += data
        self.all += data

    async def drain(self) -> None:
        self.drains += 1
        if self.reset:
            raise ConnectionResetError()
        await self.gate.wait()

    def close(self) -> None:
        self.closed = True

    def is_closing(self) -> bool:
        return self.closed

    async def wait_closed(self) -> None:
        return None

    async def start_tls(self, ssl_context: Any, **kw: Any) -> None:
        self.tls = True

    def get_extra_info(self, name: str, default: Any = None) -> Any:
        if name == 'peername':
            return self.peer
        if name == 'sockname':
            return ('5.6.7.8', 143)
        if name == 'socket':
            return _FakeSocket()
        return default


class Conn:
    """One client connection: the harness side of the byte streams."""

    def __init__(self, sim: 'Sim', idx: int, reader: asyncio.StreamReader,
                 writer: GateWriter, task: 'asyncio.Task[None]',
                 state: Any) -> None:
        self.sim = sim
        self.idx = idx
        self.reader = reader
        self.writer = writer
        self.task = task
        # weak: the harness must not keep a finished connection's state (and
        # with it its SelectedMailbox, which pymap tracks in a WeakSet) alive
        self._state = weakref.ref(state) if state is not None else None
        self.sent = bytearray()
        self.eof_sent = False

    @property
    def state(self) -> Any:
        return self._state() if self._state is not None else None

    def feed(self, data: bytes) -> None:
        self.sent += data
        self.reader.feed_data(data)

    def eof(self) -> None:
        if not self.eof_sent:
            self.eof_sent = True
            self.reader.feed_eof()

    def take(self) -> bytes:
        out = bytes(self.writer.buf)
        self.writer.buf.clear()
        return out

    @property
    def done(self) -> bool:
        return self.task.done()

    @property
    def exception(self) -> BaseException | None:
        if not self.task.done() or self.task.cancelled():
            return None
        return self.task.exception()

    def cmd(self, data: bytes, advance: float = 0.0) -> bytes:
        """Feed bytes, run to quiescence, return what was written."""
        self.feed(data)
        self.sim.settle(advance=advance)
        return self.take()


class Sim:
    """Fresh loop + fresh server objects for one generated case."""

    def __init__(self) -> None:
        self.loop = VLoop()
        self.conns: list[Conn] = []
        self.steps = 0
        self.closed = False
        self._factories: dict[str, Callable[..., Any]] = {}

    # -- loop control ------------------------------------------------------

    def run(self, coro: Any) -> Any:
        """Run a setup coroutine to completion on the loop."""
        return self.loop.run_until_complete(coro)

    def step(self, n: int = 1) -> None:
        loop = self.loop
        for _ in range(n):
            loop.call_soon(loop.stop)
            loop.run_forever()
            self.steps += 1

    @property
    def idle(self) -> bool:
        return not self.loop._ready  # type: ignore[attr-defined]

    def _next_timer(self) -> float | None:
        live = [h._when for h in self.loop._scheduled  # type: ignore
                if not h._cancelled]
        return min(live) if live else None

    def settle(self, advance: float = 0.0, max_steps: int = 20000) -> int:
        """Run until nothing is runnable. ``advance`` is a budget of virtual
        seconds the clock may be moved forward to fire pending timers."""
        loop = self.loop
        deadline = loop._vt + advance
        n = 0
        while True:
            self.step()
            n += 1
            if n > max_steps:
                raise NoQuiescence(n)
            if loop._ready:  # type: ignore[attr-defined]
                continue
            ex = getattr(self, 'executor', None)
            if ex is not None and ex.inflight:
                # threaded backend: work is running in an executor thread;
                # its completion arrives through call_soon_threadsafe
                import time as _time
                if ex.waited > 120.0:
                    raise NoQuiescence(n)
                _time.sleep(0.0005)
                ex.waited += 0.0005
                n -= 1
                continue
            when = self._next_timer()
            if when is not None and when <= loop._vt:
                continue
            if when is not None and when <= deadline:
                loop._vt = when
                continue
            if advance and when is not None and loop._vt < deadline:
                loop._vt = deadline
            return n

    def advance(self, seconds: float) -> None:
        self.loop._vt += seconds

    # -- connections -------------------------------------------------------

    def connect(self, service: str = 'imap', *,
                peer: tuple[str, int] = ('1.2.3.4', 1234),
                settle: bool = True) -> Conn:
        factory = self._factories[service]
        reader = asyncio.StreamReader(limit=2 ** 16, loop=self.loop)
        writer = GateWriter(peer)
        coro, state = factory(reader, writer, SocketInfoLocal(writer))
        # pymap.main applies the config to the context variables before any
        # service starts; do the same for this connection only (the harness
        # process runs many configurations one after another)
        import contextvars
        ctx = contextvars.copy_context()
        cfg = getattr(self, 'config', None)
        if cfg is not None and getattr(self, 'executor', None) is not None:
            ctx.run(cfg.apply_context)
        task = self.loop.create_task(coro, context=ctx)
        conn = Conn(self, len(self.conns), reader, writer, task, state)
        self.conns.append(conn)
        if settle:
            self.settle()
        return conn

    def add_imap(self, login: Any, config: Any) -> None:
        from pymap.context import connection_exit
        from pymap.imap import IMAPConnection
        from pymap.imap.state import ConnectionState

        def factory(reader: Any, writer: Any, sock_info: Any) -> Any:
            state = ConnectionState(login, config)

            # the five lines of IMAPServer.__call__, keeping ``state``
            async def run() -> None:
                conn = IMAPConnection(config.commands, config,
                                      reader, writer, sock_info)
                async with AsyncExitStack() as stack:
                    connection_exit.set(stack)
                    stack.enter_context(closing(conn))
                    await conn.run(state)
            return run(), state
        self._factories['imap'] = factory

    def add_sieve(self, login: Any, config: Any) -> None:
        from pymap.sieve.manage import ManageSieveServer

        server = ManageSieveServer(login, config)

        def factory(reader: Any, writer: Any, sock_info: Any) -> Any:
            return server(reader, writer, sock_info), None
        self._factories['sieve'] = factory

    # -- teardown ----------------------------------------------------------

    def close(self) -> None:
        if self.closed:
            return
        self.closed = True
        loop = self.loop
        try:
            for conn in self.conns:
                conn.writer.gate.set()
                conn.eof()
            try:
                self.settle(advance=5.0, max_steps=5000)
            except NoQuiescence:
                pass
            pending = [t for t in asyncio.all_tasks(loop) if not t.done()]
            for t in pending:
                t.cancel()
            if pending:
                try:
                    self.settle(advance=5.0, max_steps=5000)
                except NoQuiescence:
                    pass
            for conn in self.conns:
                if conn.task.done() and not conn.task.cancelled():
                    conn.task.exception()  # mark retrieved
            for t in asyncio.all_tasks(loop):
                if t.done() and not t.cancelled():
                    t.exception()
        finally:
            try:
                loop.run_until_complete(loop.shutdown_asyncgens())
            except Exception:
                pass
            loop.close()
            ex = getattr(self, 'executor', None)
            if ex is not None:
                ex.shutdown(wait=True, cancel_futures=True)

    def __enter__(self) -> 'Sim':
        return self

    def __exit__(self, *exc: Any) -> None:
        self.close()
