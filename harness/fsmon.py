"""Filesystem observation, confinement, fault injection and crash snapshots
(DESIGN.md 2.5). Installed only inside a check's worker process, by replacing
attributes of the ``os`` / ``builtins`` / ``io`` modules; pymap, ``mailbox``
and ``tempfile`` all reach the filesystem through these names.

Safety: in *confine* mode a mutating call whose path is not strictly inside
the allowed root is refused with PermissionError before it reaches the real
function. Checks that plant adversarial mailbox names must run under it (the
checks run as root).
"""
from __future__ import annotations

import builtins
import errno
import io
import os
import shutil
from typing import Any, Callable

__all__ = ['FsMon', 'MUTATORS']

_REAL: dict[str, Any] = {}
for _name in ('open', 'rename', 'replace', 'remove', 'unlink', 'mkdir',
              'makedirs', 'rmdir', 'link', 'symlink', 'utime', 'listdir',
              'scandir', 'stat', 'lstat', 'chmod', 'truncate', 'mkfifo',
              'removedirs', 'renames', 'chown'):
    if hasattr(os, _name):
        _REAL['os.' + _name] = getattr(os, _name)
_REAL['builtins.open'] = builtins.open
_REAL['io.open'] = io.open

MUTATORS = {'rename', 'replace', 'remove', 'unlink', 'mkdir', 'makedirs',
            'rmdir', 'link', 'symlink', 'utime', 'chmod', 'truncate',
            'mkfifo', 'removedirs', 'renames', 'chown', 'open-w'}


def real_open(*a: Any, **kw: Any) -> Any:
    return _REAL['builtins.open'](*a, **kw)


class Violation:
    def __init__(self, op: str, path: str, why: str) -> None:
        self.op, self.path, self.why = op, path, why

    def __repr__(self) -> str:
        return f'{self.op}({self.path!r}): {self.why}'


class FsMon:
    """Context manager; while active every wrapped call is traced."""

    def __init__(self, *, allowed_root: str | None = None,
                 read_ok: tuple[str, ...] = (),
                 write_ok: tuple[str, ...] = (),
                 fault_at: int | None = None,
                 on_mutation: Callable[[int, str, str], None] | None = None,
                 on_after: Callable[[int, str, str], None] | None = None
                 ) -> None:
        self.allowed_root = self._norm(allowed_root) if allowed_root else None
        self.read_ok = tuple(self._norm(p) for p in read_ok)
        self.write_ok = tuple(self._norm(p) for p in write_ok)
        self.fault_at = fault_at
        self.on_mutation = on_mutation
        self.on_after = on_after
        self.trace: list[tuple[str, str, str]] = []   # (op, path, r|w)
        self.violations: list[Violation] = []
        self.mutations = 0
        #: mutating operations that are candidates for an injected fault
        #: (lock files are skipped: a failed unlink of a lock file leaves the
        #: lock until its 600 s expiry, by design; so is the removal of a
        #: temporary file in a maildir's tmp/, which the standard library does
        #: after its commit point and cannot report meaningfully)
        self.faultable = 0
        self.fault_skip_suffix = '.lock'
        self.active = False
        self.enabled = True
        self.forbid_root_itself = False

    @staticmethod
    def _norm(path: Any) -> str:
        if isinstance(path, bytes):
            path = os.fsdecode(path)
        if isinstance(path, int):
            return f'<fd {path}>'
        path = os.fspath(path)
        return os.path.normpath(os.path.join(os.getcwd(), path))

    def _inside(self, path: str, root: str, strict: bool = True) -> bool:
        if path == root:
            return not strict
        return path.startswith(root.rstrip('/') + '/')

    # -- policy ------------------------------------------------------------

    def _check(self, op: str, path: Any, mode: str) -> None:
        """mode 'r' or 'w'. Raises PermissionError for a refused call."""
        if not self.active or not self.enabled:
            return
        if isinstance(path, int):
            return
        try:
            npath = self._norm(path)
        except (ValueError, TypeError):
            return            # embedded NUL etc.: the real call will raise
        if '\x00' in npath:
            return
        self.trace.append((op, npath, mode))
        root = self.allowed_root
        if mode == 'w':
            if root is not None:
                ok = self._inside(npath, root) or any(
                    self._inside(npath, w, strict=False)
                    for w in self.write_ok)
                if not ok:
                    self.violations.append(Violation(
                        op, npath, 'mutating call outside the user store'))
                    raise PermissionError(errno.EACCES,
                                          'fsmon: confined', npath)
                if self.forbid_root_itself and npath == root:
                    self.violations.append(Violation(
                        op, npath, 'mutates the user store directory itself'))
                    raise PermissionError(errno.EACCES,
                                          'fsmon: confined', npath)
            self.mutations += 1
            skip = npath.endswith(self.fault_skip_suffix) or (
                op in ('remove', 'unlink') and '/tmp/' in npath)
            if not skip:
                self.faultable += 1
            if self.on_mutation is not None:
                self.enabled = False
                try:
                    self.on_mutation(self.mutations, op, npath)
                finally:
                    self.enabled = True
            if self.fault_at is not None and self.faultable == self.fault_at \
                    and not skip:
                self.fault_at = None
                raise OSError(errno.EIO, 'fsmon: injected I/O error', npath)
        elif op in ('listdir', 'scandir', 'open-r') and root is not None:
            ok = self._inside(npath, root, strict=False) or any(
                self._inside(npath, r, strict=False) for r in self.read_ok)
            if not ok:
                self.violations.append(Violation(
                    op, npath, 'reads outside the user store'))

    # -- wrappers ------------------------------------------------------------

    def _after(self, op: str, path: Any) -> None:
        """called right after a mutating call returned"""
        if self.on_after is None or not self.active or not self.enabled \
                or isinstance(path, int):
            return
        self.enabled = False
        try:
            self.on_after(self.mutations, op, self._norm(path))
        except (ValueError, TypeError):
            pass
        finally:
            self.enabled = True

    def _wrap1(self, name: str, mode: str) -> Any:
        real = _REAL['os.' + name]

        def wrapper(path: Any, *a: Any, **kw: Any) -> Any:
            self._check(name, path, mode)
            res = real(path, *a, **kw)
            if mode == 'w':
                self._after(name, path)
            return res
        wrapper.__name__ = name
        return wrapper

    def _wrap2(self, name: str) -> Any:
        real = _REAL['os.' + name]

        def wrapper(src: Any, dst: Any, *a: Any, **kw: Any) -> Any:
            if name == 'symlink':
                self._check(name, dst, 'w')
            else:
                self._check(name, src, 'w')
                # the same mutation, second path: check without counting twice
                saved = self.mutations, self.fault_at, self.on_mutation
                saved_f = self.faultable
                self.fault_at, self.on_mutation = None, None
                try:
                    self._check(name, dst, 'w')
                finally:
                    self.mutations = saved[0]
                    self.faultable = saved_f
                    self.fault_at, self.on_mutation = saved[1], saved[2]
            res = real(src, dst, *a, **kw)
            self._after(name, dst)
            return res
        wrapper.__name__ = name
        return wrapper

    def _wrap_open(self, real: Any) -> Any:
        def wrapper(file: Any, mode: str = 'r', *a: Any, **kw: Any) -> Any:
            writing = any(ch in mode for ch in 'wxa+')
            if kw.get('opener') is None:
                self._check('open-w' if writing else 'open-r', file,
                            'w' if writing else 'r')
            # with an opener (tempfile does this) the path argument is not
            # what gets opened; the opener's own os.open call is checked
            res = real(file, mode, *a, **kw)
            if writing and kw.get('opener') is None:
                self._after('open-w', file)
            return res
        return wrapper

    def _wrap_osopen(self) -> Any:
        real = _REAL['os.open']

        def wrapper(path: Any, flags: int, *a: Any, **kw: Any) -> Any:
            writing = bool(flags & (os.O_WRONLY | os.O_RDWR | os.O_CREAT
                                    | os.O_TRUNC | os.O_APPEND))
            self._check('open-w' if writing else 'open-r', path,
                        'w' if writing else 'r')
            res = real(path, flags, *a, **kw)
            if writing:
                self._after('open-w', path)
            return res
        return wrapper

    def __enter__(self) -> 'FsMon':
        for name in ('remove', 'unlink', 'mkdir', 'makedirs', 'rmdir',
                     'utime', 'chmod', 'truncate', 'mkfifo', 'removedirs',
                     'chown'):
            if 'os.' + name in _REAL:
                setattr(os, name, self._wrap1(name, 'w'))
        for name in ('listdir', 'scandir', 'stat', 'lstat'):
            setattr(os, name, self._wrap1(name, 'r'))
        for name in ('rename', 'replace', 'link', 'symlink', 'renames'):
            if 'os.' + name in _REAL:
                setattr(os, name, self._wrap2(name))
        os.open = self._wrap_osopen()
        builtins.open = self._wrap_open(_REAL['builtins.open'])
        io.open = self._wrap_open(_REAL['io.open'])
        self.active = True
        return self

    def __exit__(self, *exc: Any) -> None:
        self.active = False
        for key, real in _REAL.items():
            mod, name = key.split('.')
            setattr({'os': os, 'builtins': builtins, 'io': io}[mod], name,
                    real)

    class _Paused:
        def __init__(self, mon: 'FsMon') -> None:
            self.mon = mon

        def __enter__(self) -> None:
            self.prev = self.mon.enabled
            self.mon.enabled = False

        def __exit__(self, *exc: Any) -> None:
            self.mon.enabled = self.prev

    def paused(self) -> 'FsMon._Paused':
        """For the harness' own file operations."""
        return FsMon._Paused(self)


def tree_fingerprint(root: str) -> list[tuple[str, int, str]]:
    """(relative path, size, sha1) of every file below root, with the real
    os functions."""
    import hashlib
    out = []
    walk_stack = [root]
    while walk_stack:
        d = walk_stack.pop()
        try:
            names = sorted(_REAL['os.listdir'](d))
        except OSError:
            continue
        for nm in names:
            p = os.path.join(d, nm)
            st = _REAL['os.lstat'](p)
            import stat as _stat
            if _stat.S_ISDIR(st.st_mode):
                out.append((os.path.relpath(p, root) + '/', 0, ''))
                walk_stack.append(p)
            else:
                with real_open(p, 'rb') as f:
                    h = hashlib.sha1(f.read()).hexdigest()
                out.append((os.path.relpath(p, root), st.st_size, h))
    return sorted(out)


def copytree(src: str, dst: str) -> None:
    shutil.copytree(src, dst, symlinks=True)
