"""Crash-point snapshots and restart dumps for the maildir backend
(shared by C15, C04 and C14).

One in-process run of a history under harness.fsmon takes a copy of the store
*before* every mutating filesystem operation. Because a process kill only
prevents later operations, the copy taken before operation k is the disk
image a kill between operations k-1 and k leaves behind.
"""
from __future__ import annotations

import os
import re
import shutil
import tempfile
from typing import Any, Callable

from . import fsmon
from .servers import maildir_sim

_VID = re.compile(rb'X-Vid:\s*(\S+)', re.I)


def second_filesystem() -> str | None:
    """A directory on another filesystem than the temp dir, if there is one."""
    cand = '/dev/shm'
    try:
        if os.path.isdir(cand) and os.access(cand, os.W_OK) and \
                os.stat(cand).st_dev != os.stat(tempfile.gettempdir()).st_dev:
            return cand
    except OSError:
        pass
    return None


def dump_all(sim: Any, user: str = 'alice', password: bytes = b'pwalice',
             *, append_probe: bool = False) -> dict[str, Any]:
    """LIST/LSUB and, per mailbox, UIDVALIDITY + {uid: (vid, flags, size)}
    through a fresh session. Raises RuntimeError if the store cannot be
    served."""
    c = sim.connect()
    c.take()
    r = c.cmd(b'd LOGIN %s %s\r\n' % (user.encode(), password))
    if b'd OK' not in r:
        raise RuntimeError(f'login failed: {r!r}')
    out: dict[str, Any] = {'mailboxes': {}}
    r = c.cmd(b'd LIST "" *\r\n')
    if b'd OK' not in r:
        raise RuntimeError(f'LIST failed: {r!r}')
    names = re.findall(rb'\* LIST \(([^)]*)\) "/" ([^\r]*)', r)
    out['list'] = sorted(n for _, n in names)
    r = c.cmd(b'd LSUB "" *\r\n')
    if b'd OK' not in r:
        raise RuntimeError(f'LSUB failed: {r!r}')
    out['lsub'] = sorted(re.findall(rb'\* LSUB \([^)]*\) "/" ([^\r]*)', r))
    for attrs, name in names:
        if b'Noselect' in attrs:
            continue
        r = c.cmd(b'd EXAMINE ' + name + b'\r\n')
        if b'd OK' not in r:
            raise RuntimeError(f'EXAMINE {name!r} failed: {r!r}')
        uv = re.search(rb'UIDVALIDITY (\d+)', r)
        un = re.search(rb'UIDNEXT (\d+)', r)
        box: dict[str, Any] = {'uidvalidity': int(uv.group(1)) if uv else None,
                               'uidnext': int(un.group(1)) if un else None,
                               'messages': {}}
        ex = re.search(rb'\* (\d+) EXISTS', r)
        if ex and int(ex.group(1)):
            r = c.cmd(b'd UID FETCH 1:* (UID FLAGS RFC822.SIZE '
                      b'BODY.PEEK[HEADER.FIELDS (X-Vid)])\r\n')
            if b'd OK' not in r:
                raise RuntimeError(f'FETCH in {name!r} failed: {r!r}')
            for m in re.finditer(
                    rb'\* \d+ FETCH \(UID (\d+) FLAGS \(([^)]*)\) '
                    rb'RFC822.SIZE (\d+) BODY\[[^\]]*\] \{\d+\}\r\n'
                    rb'([^)]*)\)\r\n', r):
                vid = _VID.search(m.group(4))
                flags = frozenset(f.lower() for f in m.group(2).split()
                                  if f.lower() != b'\\recent')
                box['messages'][int(m.group(1))] = (
                    vid.group(1) if vid else None, flags, int(m.group(3)))
        out['mailboxes'][name] = box
    if append_probe:
        out['append_probe'] = {}
        for name in list(out['mailboxes']):
            pm = b'X-Vid: probe\r\n\r\nprobe\r\n'
            r = c.cmd(b'd APPEND ' + name + b' {%d+}\r\n' % len(pm) + pm
                      + b'\r\n')
            m = re.search(rb'APPENDUID (\d+) (\d+)', r)
            out['append_probe'][name] = (int(m.group(1)), int(m.group(2))) \
                if m else None
    c.cmd(b'd LOGOUT\r\n')
    return out


def age_locks(root: str) -> int:
    """Lock files left by the 'killed' process are aged past FileLock's
    expiry (equivalent to waiting ten minutes)."""
    n = 0
    for d, _dirs, files in os.walk(root):
        for f in files:
            if f.endswith('.lock'):
                p = os.path.join(d, f)
                os.utime(p, (1, 1))
                n += 1
    return n


class History:
    """Runs commands against a fresh maildir store, snapshotting before
    every mutating filesystem operation."""

    def __init__(self, layout: str = '++', base_parent: str | None = None,
                 snapshots: bool = True, fault_at: int | None = None) -> None:
        self.scratch = tempfile.mkdtemp(prefix='crash-', dir=base_parent)
        self.base = os.path.join(self.scratch, 'base')
        self.snapdir = os.path.join(self.scratch, 'snaps')
        os.makedirs(self.base)
        os.makedirs(self.snapdir)
        self.layout = layout
        self.sim = maildir_sim(self.base, layout=layout)
        self.snaps: list[dict[str, Any]] = []
        self.acked = 0            # commands acknowledged so far
        self.inflight: Any = None
        self.take_snapshots = snapshots
        self.mon = fsmon.FsMon(allowed_root=self.scratch, read_ok=('/',),
                               write_ok=(tempfile.gettempdir(),),
                               on_mutation=self._on_mutation,
                               on_after=self._on_after,
                               fault_at=fault_at)
        self.mon.enabled = False
        self.mon.__enter__()
        self.op_index_in_command = 0

    def _on_mutation(self, n: int, op: str, path: str) -> None:
        if not self.take_snapshots or self.inflight is None:
            return
        self.op_index_in_command += 1
        dst = os.path.join(self.snapdir, 's%d' % len(self.snaps))
        shutil.copytree(self.base, dst, symlinks=True)
        self.snaps.append({'dir': dst, 'acked': self.acked,
                           'inflight': self.inflight, 'op': op,
                           'path': os.path.relpath(path, self.base),
                           'k': self.op_index_in_command})

    def _on_after(self, n: int, op: str, path: str) -> None:
        """The store right after a mutating call returned: differs from the
        image before the next call when data is still sitting in a Python
        file buffer (e.g. a file renamed into place before it was flushed).
        Only taken when it can differ: after rename/replace/link."""
        if not self.take_snapshots or self.inflight is None or \
                op not in ('rename', 'replace', 'link'):
            return
        dst = os.path.join(self.snapdir, 's%d' % len(self.snaps))
        shutil.copytree(self.base, dst, symlinks=True)
        self.snaps.append({'dir': dst, 'acked': self.acked,
                           'inflight': self.inflight, 'op': 'after-' + op,
                           'path': os.path.relpath(path, self.base),
                           'k': self.op_index_in_command + 0.5})

    def connect(self, user: str = 'alice', pw: bytes = b'pwalice') -> Any:
        c = self.sim.connect()
        c.take()
        assert b'l OK' in c.cmd(b'l LOGIN %s %s\r\n' % (user.encode(), pw))
        return c

    def run(self, conn: Any, label: Any, data: bytes) -> bytes:
        """one command with snapshots armed"""
        self.inflight = label
        self.op_index_in_command = 0
        self.mon.enabled = True
        try:
            got = conn.cmd(data)
        finally:
            self.mon.enabled = False
        self.inflight = None
        return got

    def close(self) -> None:
        self.mon.__exit__(None, None, None)
        try:
            self.sim.close()
        finally:
            shutil.rmtree(self.scratch, ignore_errors=True)


def restart_dump(image_dir: str, layout: str, *, append_probe: bool = True
                 ) -> dict[str, Any]:
    """Copy a crash image, age its lock files, start a new backend on it and
    dump everything."""
    work = tempfile.mkdtemp(prefix='restart-',
                            dir=os.path.dirname(os.path.dirname(image_dir)))
    dst = os.path.join(work, 'base')
    shutil.copytree(image_dir, dst, symlinks=True)
    age_locks(dst)
    sim = maildir_sim(dst, layout=layout, provision=False)
    try:
        return dump_all(sim, append_probe=append_probe)
    finally:
        sim.close()
        shutil.rmtree(work, ignore_errors=True)
