"""Parser-level access to pymap: feed a complete client byte string to
Commands.parse the way IMAPConnection.read_command does (literal+ merged by
readline, synchronising literals supplied as continuations)."""
from __future__ import annotations

import re
from datetime import datetime
from typing import Any

_LITPLUS = re.compile(rb'\{(\d+)\+\}\r?\n$')


class Incomplete(Exception):
    """The byte string ended before the command was complete."""


def _read_line(buf: bytes, pos: int) -> tuple[bytes, int]:
    out = bytearray()
    while True:
        nl = buf.find(b'\n', pos)
        if nl < 0:
            raise Incomplete()
        seg = buf[pos:nl + 1]
        out += seg
        pos = nl + 1
        # only what was read as a *line* can announce a literal - not the
        # tail of the previous literal's data
        m = _LITPLUS.search(seg) if seg.endswith((b'+}\n', b'+}\r\n')) \
            else None
        if m:
            n = int(m.group(1))
            if pos + n > len(buf):
                raise Incomplete()
            out += buf[pos:pos + n]
            pos += n
            continue
        return bytes(out), pos


def parse_wire(wire: bytes, commands: Any = None, params: Any = None,
               max_rounds: int = 64) -> tuple[Any, int, int]:
    """Returns (command, bytes consumed, number of continuation requests).
    Raises Incomplete if the server would still be waiting for input."""
    from pymap.parsing import Params
    from pymap.parsing.commands import Commands
    from pymap.parsing.state import ParsingState, ParsingInterrupt, \
        ExpectContinuation
    if commands is None:
        commands = Commands()
    if params is None:
        params = Params(max_append_len=1000000000)
    line, pos = _read_line(wire, 0)
    conts: list[memoryview] = []
    for _ in range(max_rounds):
        state = ParsingState(continuations=conts)
        p = params.copy(state)
        try:
            cmd, _rest = commands.parse(memoryview(line), p)
        except ParsingInterrupt as intr:
            exp = intr.expected
            if not isinstance(exp, ExpectContinuation):
                raise
            n = exp.literal_length
            if pos + n > len(wire):
                raise Incomplete()
            lit = wire[pos:pos + n]
            pos += n
            extra, pos = _read_line(wire, pos)
            conts.append(memoryview(lit + extra))
        else:
            return cmd, pos, len(conts)
    raise RuntimeError('too many continuation rounds')


_SKIP = {'_raw', 'raw', '_for_response', '_hash'}


def project(obj: Any, depth: int = 0) -> Any:
    """Field-by-field, JSON-able projection of a parsed object, ignoring
    cached wire forms."""
    if depth > 40:
        return '<deep>'
    if obj is None or isinstance(obj, (bool, int, float, str)):
        return obj
    if isinstance(obj, (bytes, bytearray, memoryview)):
        return bytes(obj)
    if isinstance(obj, datetime):
        return obj.isoformat()
    if isinstance(obj, (set, frozenset)):
        return sorted((project(x, depth + 1) for x in obj), key=repr)
    if isinstance(obj, dict):
        return sorted(((project(k, depth + 1), project(v, depth + 1))
                       for k, v in obj.items()), key=repr)
    if isinstance(obj, (list, tuple)):
        return [project(x, depth + 1) for x in obj]
    if isinstance(obj, type):
        return obj.__name__
    if isinstance(obj, BaseException):
        return type(obj).__name__
    names: list[str] = []
    for klass in type(obj).__mro__:
        for n in getattr(klass, '__slots__', ()) or ():
            if n not in names:
                names.append(n)
    names += [n for n in getattr(obj, '__dict__', {}) if n not in names]
    if not names:
        try:
            return list(project(x, depth + 1) for x in obj)
        except TypeError:
            return repr(obj)
    out: dict[str, Any] = {'__type__': type(obj).__name__}
    for n in names:
        if n in _SKIP or n == '__weakref__':
            continue
        try:
            out[n] = project(getattr(obj, n), depth + 1)
        except AttributeError:
            pass
    return out
