"""Shared Hypothesis strategies: message bytes (C03, C06, C07, C13) and
adversarial atoms/strings (C06, C07, C08, C11)."""
from __future__ import annotations

from typing import Any

from hypothesis import strategies as st

# -- small building blocks ----------------------------------------------------

EOLS = st.sampled_from([b'\r\n', b'\r\n', b'\r\n', b'\n', b'\r', b''])
WORDS = [b'hello', b'world', b'foo', b'bar', b'Re:', b're: ', b'x', b'=?utf-8?q?h=C3=A9?=',
         b'=?utf-8?b?aGk=?=', b'=?bogus?x?zz?=', b'"quoted"', b'(comment)',
         b'<a@b.c>', b'a@b', b'A B <c@d.e>', b'grp: a@b, c@d;', b'\xc3\xa9',
         b'\xff\xfe', b'\x00', b'\\', b'"', b';', b',', b':', b'  ', b'\t',
         # encoded words that decode to control characters: a trailing LF,
         # CR, CRLF, NUL, an embedded LF, a quote and a backslash
         b'=?utf-8?b?V2Vla2x5IHJlcG9ydAo=?=', b'=?utf-8?b?eA0=?=',
         b'=?utf-8?b?eA0K?=', b'=?utf-8?q?x=00?=', b'=?utf-8?q?a=0Ab?=',
         b'=?utf-8?q?=22=5C?=', b'=?us-ascii?q?=0A?=']


def text_bytes(max_size: int = 30) -> Any:
    return st.one_of(
        st.lists(st.sampled_from(WORDS), max_size=5).map(b' '.join),
        st.binary(max_size=max_size).map(
            lambda b: b.replace(b'\n', b' ').replace(b'\r', b' ')),
        st.text('abcdefghij XYZ0123456789.,;:<>@()[]"\\-_=?/',
                max_size=max_size).map(str.encode))


DATES = [b'Mon, 01 Jan 2001 10:00:00 +0000', b'1 Jan 2001 10:00 -0500',
         b'Tue, 31 Dec 1999 23:59:59 +1400', b'not a date', b'', b'0',
         b'Mon, 99 Foo 2001 10:00:00 +0000', b'01 Jan 0001 00:00:00 +0000',
         b'Mon, 01 Jan 99999 10:00:00 +0000', b'1 Jan 2001 25:61:61 +9999',
         b'Thu, 1 Jan 1970 00:00:00 GMT', b'\xff\xff', b'Mon,',
         b'Sat, 29 Feb 2001 10:00:00 +0000']
ADDRS = [b'.bob@x.y', b'bob.@x.y', b'a..b@x.y', b'a@x.y, .b@x.y',
         b'a@x.y,\r\n .b@x.y', b'g: a@x.y, .b@x.y;', b'a@.x.y', b'a@x..y',
         b'"a"."b"@x.y', b'a@x.y (c(d(e)))', b'a@b.c', b'A <a@b.c>', b'"A, B" <a@b.c>', b'a@b.c, d@e.f',
         b'grp: a@b.c, d@e.f;', b'grp:;', b'<>', b'@', b'a@', b'@b', b',',
         b'a@b.c,', b'"unterminated <a@b', b'(comment) a@b.c', b'<a@b.c',
         b'=?utf-8?q?J=C3=B6rg?= <j@x.y>', b'\xc3\xa9 <e@x.y>', b'a b c',
         b'<@route:a@b.c>', b'a@[1.2.3.4]', b';', b':', b'a@b.c;',
         b'x: y: a@b;;', b'"' + b'\\' * 5 + b'"@x', b'']
CTYPES = [b'text/plain', b'text/plain; charset=utf-8', b'text/html; charset="x"',
          b'multipart/mixed; boundary=B', b'multipart/mixed',
          b'multipart/alternative; boundary="B"', b'message/rfc822',
          b'application/octet-stream; name="a.bin"', b'text', b'/', b'x/y/z',
          b'text/plain; charset', b'text/plain; =x', b'text/plain; a*0=x; a*1=y',
          b"text/plain; name*=utf-8''%e2%82%ac", b'TEXT/PLAIN; CHARSET=US-ASCII',
          b"text/plain; name*=us-ascii''notes.txt%0A",
          b"text/plain; name*=us-ascii''a%0D%0Ab%00",
          b'text/plain;;;', b'multipart/mixed; boundary=', b'\xff/\xfe', b'']
CTES = [b'7bit', b'8bit', b'binary', b'base64', b'quoted-printable', b'BASE64',
        b'x-unknown', b'', b'base64 ', b'7bit; x', b'uuencode']
DISPS = [b'inline', b'attachment; filename="a.txt"', b'attachment; filename*0=a; filename*1=b',
         b"attachment; filename*=us-ascii''x%0A",
         b'', b';', b'attachment; filename=\xff', b'form-data; name="x"']
HEADER_NAMES = [b'Subject', b'From', b'To', b'Cc', b'Bcc', b'Sender',
                b'Reply-To', b'Date', b'Message-Id', b'In-Reply-To',
                b'References', b'Content-Type', b'Content-Transfer-Encoding',
                b'Content-Disposition', b'Content-Id', b'Content-Description',
                b'Content-Language', b'Content-Location', b'Content-MD5',
                b'MIME-Version', b'X-Vid', b'X-Custom', b'subject', b'DATE',
                b'Received', b'Thread-Topic', b'Thread-Index']


def header_value(name: bytes) -> Any:
    lname = name.lower()
    if lname == b'date':
        base = st.sampled_from(DATES)
    elif lname in (b'from', b'to', b'cc', b'bcc', b'sender', b'reply-to'):
        base = st.one_of(st.sampled_from(ADDRS),
                         st.lists(st.sampled_from(ADDRS), min_size=2,
                                  max_size=4).map(b', '.join))
    elif lname == b'content-type':
        base = st.sampled_from(CTYPES)
    elif lname == b'content-transfer-encoding':
        base = st.sampled_from(CTES)
    elif lname == b'content-disposition':
        base = st.sampled_from(DISPS)
    elif lname == b'subject':
        base = st.one_of(
            text_bytes(),
            st.integers(1, 400).map(lambda n: b're: ' * n + b'x'),
            st.sampled_from([900, 1500, 3000]).map(
                lambda n: b're:' * n + b'x'),
            st.sampled_from([900, 3000]).map(
                lambda n: b'[x] ' * n + b'y' + b' (fwd)' * n),
            st.integers(1, 60).map(lambda n: b'[fwd: ' * n + b'x' + b']' * n),
            st.sampled_from([b'Re: Re: fwd: x (fwd)', b're[2]: x', b'[a] b',
                             b'Fwd: [x]', b'', b' ', b'(fwd)', b're:',
                             b'=?utf-8?q?re:_x?=']))
    elif lname in (b'message-id', b'in-reply-to', b'references',
                   b'content-id'):
        base = st.one_of(st.sampled_from([
            b'<a@b>', b'<a@b> <c@d>', b'a@b', b'<>', b'<', b'', b'<a@b',
            b'<a@b> (c)', b'\xff']), text_bytes())
    else:
        base = text_bytes()
    # optional folding / bare CR / NUL decorations
    deco = st.sampled_from([b'', b'', b'', b'\r\n ', b'\r\n\t', b'\n ', b'\r',
                            b'\x00', b' '])
    return st.tuples(base, deco, base).map(
        lambda t: t[0] + t[1] + (t[2] if t[1] else b''))


def header_line() -> Any:
    name = st.one_of(st.sampled_from(HEADER_NAMES),
                     st.text('abcXYZ-', min_size=1, max_size=8).map(
                         str.encode))
    sep = st.sampled_from([b': ', b': ', b':', b' : ', b':\t', b''])
    return name.flatmap(lambda n: st.tuples(
        st.just(n), sep, header_value(n), EOLS).map(b''.join))


def line_message(max_headers: int = 6, max_body: int = 6) -> Any:
    headers = st.lists(header_line(), max_size=max_headers).map(b''.join)
    sepr = st.sampled_from([b'\r\n', b'\r\n', b'\n', b'', b'\r'])
    body_line = st.tuples(text_bytes(40) | st.sampled_from(
        [b'', b' ', b'   ', b'\t', b'--B', b'--B--', b'.']), EOLS).map(
        b''.join)
    body = st.lists(body_line, max_size=max_body).map(b''.join)
    return st.tuples(headers, sepr, body).map(b''.join)


def mime_message(depth: int = 0) -> Any:
    """multipart/message nesting with odd boundaries, <= 3 levels."""
    boundary = st.sampled_from([b'B', b'b1', b'=_x', b'a b', b"'()+_,-./:=?",
                                b'B' * 70, b'--', b'\xc3\xa9'])
    leaf = line_message(3, 3)
    if depth >= 2:
        inner = leaf
    else:
        inner = st.one_of(leaf, leaf, st.deferred(
            lambda: mime_message(depth + 1)))

    def build(t: Any) -> bytes:
        bnd, quoted, parts, closing, preamble, epilogue, eol, extra = t
        ct = b'multipart/' + extra + b'; boundary=' + (
            b'"' + bnd + b'"' if quoted else bnd)
        out = b'Content-Type: ' + ct + eol + b'MIME-Version: 1.0' + eol + eol
        out += preamble
        for p in parts:
            out += b'--' + bnd + eol + p
            if not p.endswith((b'\n', b'\r')):
                out += eol
        if closing:
            out += b'--' + bnd + b'--' + eol
        out += epilogue
        return out
    multipart = st.tuples(
        boundary, st.booleans(), st.lists(inner, max_size=3), st.booleans(),
        st.sampled_from([b'', b'preamble\r\n', b'\r\n']),
        st.sampled_from([b'', b'epilogue', b'\r\n', b'epi\r\n']),
        st.sampled_from([b'\r\n', b'\r\n', b'\n']),
        st.sampled_from([b'mixed', b'alternative', b'digest', b'related',
                         b'x'])).map(build)
    rfc822 = st.tuples(st.sampled_from([b'\r\n', b'\n']), inner).map(
        lambda t: b'Content-Type: message/rfc822' + t[0]
        + b'Subject: outer' + t[0] + t[0] + t[1])
    return st.one_of(multipart, multipart, rfc822)


def deep_message() -> Any:
    """nesting far beyond what a recursive walk over the structure allows"""
    rfc = st.sampled_from([60, 400, 1200]).map(
        lambda n: b'Content-Type: message/rfc822\r\n\r\n' * n
        + b'Subject: innermost\r\n\r\nx\r\n')

    def multi(n: int) -> bytes:
        out = b''
        for i in range(n):
            out += b'Content-Type: multipart/mixed; boundary=b%d\r\n\r\n' \
                   b'--b%d\r\n' % (i, i)
        out += b'Content-Type: text/plain\r\n\r\nx\r\n'
        for i in reversed(range(n)):
            out += b'--b%d--\r\n' % i
        return out
    return st.one_of(rfc, st.sampled_from([60, 400, 1200]).map(multi))


LITERAL_TAILS = [b'{3+}', b'{0+}', b' {12+}', b'\r\n{1+}', b'{3}', b'{2+}\r',
                 b'{2+}\n']


def any_message() -> Any:
    """most messages as they are; some end in what looks like the
    announcement of a (non-synchronising) literal"""
    return st.one_of(_any_message(), _any_message(), _any_message(),
                     st.tuples(_any_message(),
                               st.sampled_from(LITERAL_TAILS)).map(
                         lambda t: t[0][:2000] + t[1]))


def _any_message() -> Any:
    return st.one_of(
        deep_message(),
        st.binary(min_size=1, max_size=200),
        line_message(), line_message(), mime_message(),
        st.sampled_from([b'\r\n', b'\n', b'x', b'Subject: x\r\n', b'A: b',
                         b'A: b\r\n\r\n', b'\r\n\r\n', b' ', b':\r\n',
                         b'Subject: x\r\n\r\n \r\n', b'a\rb', b'\x00']))


# -- adversarial strings for command arguments -----------------------------------

NASTY = [b'', b' ', b'&', b'&-', b'&AAo-', b'&AOk', b'&!!-', b'&AO-',
         b'&2D3eAA-', b'&2D0-', b'\xc3\xa9', b'\xff', b'\x00', b'\x7f', b'*',
         b'%', b'"', b'\\', b'(', b')', b'{', b'}', b'[', b']', b'{5}',
         b'{5+}', b'~{3}', b'{99999999999999999999}', b'{-1}', b'NIL', b'nil',
         b'INBOX', b'inbox', b'InBoX/', b'/', b'//', b'.', b'..', b'../x',
         b'a/b', b'a/b/c', b'~', b'+', b'\t', b'\r', b'\x1b', b'1:*', b'*:*',
         b'0', b'4294967296', b'99999999999999999999999', b'-1', b'1:', b':1',
         b'1,,2', b'$', b'1.5', b'\\Seen', b'\\*', b'\\', b'\\\\Seen',
         b'(' * 40, b')' * 5, b'((((((((((((((((((((((((((((((((',
         b'9' * 4301, b'1' + b'0' * 5000, b'{' + b'9' * 4400 + b'}',
         b'*' * 25 + b'b', b'%' * 25 + b'b', b'*a' * 14 + b'*b',
         b'%a' * 14 + b'%b', b'&2AA-', b'&2D3YPQ-', b'x&3AA-y',
         b'a' * 300, b'"' + b'a' * 100 + b'"', b'CHARSET', b'utf-16',
         b'US-ASCII', b'bogus-charset', b'UTF-8', b'idna', b'undefined',
         b'unicode_escape', b'rot13', b'zlib', b'base64',
         b'x{3+}', b'{0+}', b'x {1+}', b'x\r\n{2+}']


def nasty_atom() -> Any:
    return st.one_of(
        st.sampled_from(NASTY),
        st.lists(st.sampled_from(NASTY), min_size=2, max_size=3).map(
            b''.join),
        st.binary(max_size=12).map(
            lambda b: b.replace(b'\n', b'').replace(b'\r', b'')),
        st.text('abcINBOX019/.&-', max_size=10).map(str.encode))


# -- corpus and dictionary for the coverage-guided engine (harness/fuzz.py) ----------

FUZZ_MESSAGES = [
    b'Subject: x\r\nFrom: a@b, "c d" <e@f>\r\nTo: g: h@i, j@k;\r\n'
    b'Date: Mon, 1 Jan 2001 00:00:00 +0000\r\n\r\nbody\r\n',
    b'Content-Type: multipart/mixed; boundary=b\r\n\r\npreamble\r\n--b\r\n'
    b'Content-Type: text/plain; charset=utf-8\r\n'
    b'Content-Transfer-Encoding: base64\r\n\r\naGk=\r\n--b\r\n'
    b'Content-Type: message/rfc822\r\n\r\nSubject: in\r\n\r\nx\r\n--b--\r\n'
    b'epilogue\r\n',
    b'Content-Type: message/rfc822\r\n\r\nContent-Type: text/html\r\n'
    b'Content-Disposition: attachment; filename="a"\r\n'
    b'Content-Language: en, de\r\nContent-Location: http://x/\r\n'
    b'Content-Id: <i@d>\r\nContent-Description: d\r\n\r\n<p>\r\n',
    b'Subject: =?utf-8?b?w6k=?= =?iso-8859-1?q?=E9?=\r\n'
    b'References: <a@b> <c@d>\r\nIn-Reply-To: <a@b>\r\nMessage-Id: <e@f>\r\n'
    b'Content-Transfer-Encoding: quoted-printable\r\n\r\n=C3=A9=\r\n',
    b'Content-Type: multipart/alternative;\r\n boundary="x y"\r\n\r\n'
    b'--x y\r\n\r\nplain\r\n--x y\r\nContent-Type: multipart/related; '
    b'boundary=in\r\n\r\n--in\r\nContent-Type: image/png\r\n'
    b'Content-Transfer-Encoding: binary\r\n\r\n\x89PNG\x00\r\n--in--\r\n'
    b'--x y--\r\n',
    b'From: a\nTo: b\n\nlf only\n', b'\r\nno headers\r\n', b'A: b',
    b'Received: x\r\n\tfolded\r\n continued\r\nSender: s@t\r\n'
    b'Reply-To: r@s\r\nCc: c@d\r\nBcc: b@c\r\n\r\n.\r\n',
]

FUZZ_MIME_DICT = [
    b'Content-Type: ', b'multipart/mixed; boundary=', b'message/rfc822',
    b'text/plain', b'Content-Transfer-Encoding: ', b'base64',
    b'quoted-printable', b'binary', b'8bit', b'Content-Disposition: ',
    b'attachment; filename=', b'=?utf-8?q?', b'=?utf-8?b?', b'?=',
    b'Subject: ', b'From: ', b'To: ', b'Date: ', b'Sender: ', b'Reply-To: ',
    b'In-Reply-To: ', b'References: ', b'Message-Id: ', b'--b\r\n',
    b'--b--\r\n', b'\r\n\r\n', b'\r\n', b'\n', b'charset=', b'; ', b'="',
    b'*0*=', b"utf-8''", b'<a@b>', b'"', b':;', b'\r\n ', b're: ',
    b'Content-Language: ', b'Content-Location: ', b'Content-Id: ',
    b'Mon, 1 Jan 2001 00:00:00 +0000', b'{3+}', b'\xfe\xfe']
