"""Independent strict IMAP response parser (DESIGN.md 2.2).

Written from RFC 3501 section 9 and the extensions the server advertises
(LITERAL+, ID, BINARY, UIDPLUS, MOVE, CHILDREN, APPENDLIMIT, IDLE, OBJECTID,
RFC 5530 codes). Shares no code with pymap.parsing.
"""
from __future__ import annotations

from dataclasses import dataclass, field
from typing import Any

__all__ = ['WireError', 'Resp', 'parse_stream', 'Tok', 'astring_value',
           'tagged_of', 'untagged_of']


class WireError(Exception):
    def __init__(self, msg: str, pos: int, data: bytes) -> None:
        ctx = data[max(0, pos - 40):pos + 40]
        super().__init__(f'{msg} at byte {pos}: ...{ctx!r}...')
        self.msg = msg
        self.pos = pos


@dataclass
class Tok:
    """One parsed value: kind in atom|quoted|literal|literal8|nil|list|num."""
    kind: str
    value: Any

    @property
    def isnil(self) -> bool:
        return self.kind == 'nil'

    def string(self) -> bytes | None:
        if self.kind in ('quoted', 'literal', 'literal8'):
            return self.value
        if self.kind == 'nil':
            return None
        raise TypeError(self.kind)


@dataclass
class Resp:
    kind: str                 # 'tagged' | 'untagged' | 'cont'
    tag: bytes = b''
    name: bytes = b''         # OK/NO/BAD/BYE/PREAUTH or data name (upper)
    num: int | None = None    # for n EXISTS / RECENT / EXPUNGE / FETCH
    code: tuple[bytes, bytes | None] | None = None
    text: bytes = b''
    data: Any = None
    raw: bytes = b''
    start: int = 0

    def __repr__(self) -> str:
        return f'<Resp {self.raw[:120]!r}>'


_ATOM_SPECIALS = set(b'(){ %*"\\]') | set(range(0, 0x20)) | {0x7f}
_ASTRING_EXTRA = {ord(']')}
_TAG_EXCLUDE = (_ATOM_SPECIALS - {ord(']')}) | {ord('+')}


class _P:
    def __init__(self, data: bytes, pos: int = 0) -> None:
        self.d = data
        self.p = pos

    def err(self, msg: str) -> WireError:
        return WireError(msg, self.p, self.d)

    def peek(self) -> int:
        return self.d[self.p] if self.p < len(self.d) else -1

    def expect(self, lit: bytes) -> None:
        if not self.d.startswith(lit, self.p):
            raise self.err(f'expected {lit!r}')
        self.p += len(lit)

    def sp(self) -> None:
        self.expect(b' ')

    def crlf(self) -> None:
        self.expect(b'\r\n')

    def take_while(self, ok: Any) -> bytes:
        s = self.p
        d = self.d
        n = len(d)
        p = s
        while p < n and ok(d[p]):
            p += 1
        self.p = p
        return d[s:p]

    def atom(self, extra_ok: set[int] = frozenset()) -> bytes:  # type: ignore
        a = self.take_while(lambda c: c < 0x80 and
                            (c not in _ATOM_SPECIALS or c in extra_ok))
        if not a:
            raise self.err('expected atom')
        return a

    def number(self) -> int:
        a = self.take_while(lambda c: 0x30 <= c <= 0x39)
        if not a:
            raise self.err('expected number')
        if len(a) > 1 and a[0] == 0x30:
            raise self.err('number with leading zero')
        return int(a)

    def quoted(self) -> bytes:
        self.expect(b'"')
        out = bytearray()
        d = self.d
        while True:
            if self.p >= len(d):
                raise self.err('unterminated quoted string')
            c = d[self.p]
            if c == 0x22:
                self.p += 1
                return bytes(out)
            if c in (0x0d, 0x0a, 0x00):
                raise self.err('CR/LF/NUL inside quoted string')
            if c == 0x5c:
                if self.p + 1 >= len(d) or d[self.p + 1] not in (0x22, 0x5c):
                    raise self.err('bad escape in quoted string')
                out.append(d[self.p + 1])
                self.p += 2
                continue
            out.append(c)
            self.p += 1

    def literal(self) -> Tok:
        kind = 'literal'
        if self.peek() == ord('~'):
            kind = 'literal8'
            self.p += 1
        self.expect(b'{')
        n = self.number()
        self.expect(b'}')
        self.crlf()
        if self.p + n > len(self.d):
            raise self.err(f'literal announces {n} bytes, only '
                           f'{len(self.d) - self.p} follow')
        val = self.d[self.p:self.p + n]
        # (RFC 3501 CHAR8 excludes NUL, but the property statement demands
        # NUL-freedom of quoted strings only; a stored message that contains
        # NUL comes back in a plain literal and is not flagged here.)
        self.p += n
        return Tok(kind, val)

    def _lit_start(self) -> bool:
        c = self.peek()
        return c == ord('{') or (c == ord('~') and
                                 self.d[self.p + 1:self.p + 2] == b'{')

    def string(self) -> Tok:
        c = self.peek()
        if c == 0x22:
            return Tok('quoted', self.quoted())
        if self._lit_start():
            return self.literal()
        raise self.err('expected string')

    def nstring(self) -> Tok:
        if self.d.startswith(b'NIL', self.p) and \
                (self.p + 3 >= len(self.d) or
                 self.d[self.p + 3] in b' )\r'):
            self.p += 3
            return Tok('nil', None)
        return self.string()

    def astring(self) -> Tok:
        c = self.peek()
        if c == 0x22 or self._lit_start():
            return self.string()
        return Tok('atom', self.atom(_ASTRING_EXTRA))

    def value(self, depth: int = 0) -> Tok:
        """Generic parenthesised data: lists of atoms/strings/numbers/NIL."""
        if depth > 200:
            raise self.err('nesting too deep')
        c = self.peek()
        if c == ord('('):
            return self.plist(lambda: self.value(depth + 1))
        if c == 0x22 or self._lit_start():
            return self.string()
        a = self.atom({ord('\\'), ord(']')})
        if a == b'NIL':
            return Tok('nil', None)
        if a.isdigit():
            return Tok('num', int(a))
        return Tok('atom', a)

    def plist(self, item: Any) -> Tok:
        self.expect(b'(')
        items = []
        if self.peek() == ord(')'):
            self.p += 1
            return Tok('list', items)
        while True:
            items.append(item())
            c = self.peek()
            if c == ord(')'):
                self.p += 1
                return Tok('list', items)
            if c == ord('('):
                # RFC 3501 allows adjacent lists without SP only for
                # body-type-mpart and address lists; callers that are strict
                # about it use plist_nosp.
                raise self.err('missing SP between list items')
            self.sp()

    def flag(self) -> bytes:
        if self.peek() == ord('\\'):
            self.p += 1
            if self.peek() == ord('*'):
                self.p += 1
                return b'\\*'
            return b'\\' + self.atom()
        return self.atom()


def astring_value(tok: Tok) -> bytes:
    return tok.value


# -- response-level ----------------------------------------------------------

def _resp_text(p: _P, resp: Resp) -> None:
    """resp-text = ["[" resp-text-code "]" SP] text"""
    if p.peek() == ord('['):
        p.p += 1
        name = p.atom()
        arg = None
        if p.peek() == ord(' '):
            p.p += 1
            s = p.p
            arg = p.take_while(lambda c: c not in (0x5d, 0x0d, 0x0a, 0x00))
            if p.p == s:
                raise p.err('empty response-code argument')
        p.expect(b']')
        resp.code = (name.upper(), arg)
        _check_code(p, resp.code)
        # RFC 3501 demands SP text; RFC 9051 made the text optional. Accept
        # both "] text" and "]" CRLF.
        if p.peek() == ord(' '):
            p.p += 1
    s = p.p
    text = p.take_while(lambda c: c not in (0x0d, 0x0a))
    if b'\x00' in text:
        raise p.err('NUL in response text')
    resp.text = text
    p.crlf()


def _uidset_ok(b: bytes) -> bool:
    if not b:
        return False
    for part in b.split(b','):
        ends = part.split(b':')
        if len(ends) > 2:
            return False
        for e in ends:
            if not e.isdigit() or int(e) == 0:
                return False
    return True


def _check_code(p: _P, code: tuple[bytes, bytes | None]) -> None:
    name, arg = code
    if name in (b'UIDNEXT', b'UIDVALIDITY', b'UNSEEN'):
        if arg is None or not arg.isdigit() or int(arg) == 0:
            raise p.err(f'{name!r} needs an nz-number, got {arg!r}')
    elif name == b'APPENDUID':
        parts = (arg or b'').split(b' ')
        if len(parts) != 2 or not parts[0].isdigit() \
                or int(parts[0]) == 0 or not _uidset_ok(parts[1]):
            raise p.err(f'malformed APPENDUID {arg!r}')
    elif name == b'COPYUID':
        parts = (arg or b'').split(b' ')
        if len(parts) != 3 or not parts[0].isdigit() \
                or int(parts[0]) == 0 \
                or not _uidset_ok(parts[1]) or not _uidset_ok(parts[2]):
            raise p.err(f'malformed COPYUID {arg!r}')
    elif name == b'PERMANENTFLAGS':
        q = _P(arg or b'')
        q.plist(q.flag)
        if q.p != len(q.d):
            raise p.err(f'malformed PERMANENTFLAGS {arg!r}')
    elif name == b'CAPABILITY':
        for cap in (arg or b'').split(b' '):
            q = _P(cap)
            q.atom()
            if q.p != len(cap):
                raise p.err(f'malformed capability {cap!r}')
    elif name == b'MAILBOXID':
        if arg is None or not (arg.startswith(b'(') and arg.endswith(b')')
                               and _objectid_ok(arg[1:-1])):
            raise p.err(f'malformed MAILBOXID {arg!r}')
    elif name in (b'READ-ONLY', b'READ-WRITE', b'TRYCREATE', b'ALERT',
                  b'PARSE', b'NONEXISTENT', b'ALREADYEXISTS', b'CANNOT',
                  b'EXPUNGEISSUED', b'SERVERBUG', b'UNAVAILABLE', b'TIMEOUT',
                  b'AUTHENTICATIONFAILED', b'AUTHORIZATIONFAILED', b'NOPERM',
                  b'CLIENTBUG', b'LIMIT', b'INUSE', b'EXPIRED', b'CORRUPTION',
                  b'PRIVACYREQUIRED', b'CONTACTADMIN', b'OVERQUOTA',
                  b'HASCHILDREN', b'CLOSED', b'TOOBIG'):
        if arg is not None:
            raise p.err(f'{name!r} takes no argument')


def _objectid_ok(b: bytes) -> bool:
    return 1 <= len(b) <= 255 and all(
        c in b'abcdefghijklmnopqrstuvwxyzABCDEFGHIJKLMNOPQRSTUVWXYZ'
        b'0123456789_-' for c in b)


def _mailbox(p: _P) -> bytes:
    return p.astring().value


def _parse_untagged(p: _P, resp: Resp) -> None:
    c = p.peek()
    if 0x30 <= c <= 0x39:
        resp.num = p.number()
        p.sp()
        name = p.atom().upper()
        resp.name = name
        if name in (b'EXISTS', b'RECENT', b'EXPUNGE'):
            if name == b'EXPUNGE' and resp.num == 0:
                raise p.err('EXPUNGE 0')
            p.crlf()
            return
        if name == b'FETCH':
            if resp.num == 0:
                raise p.err('FETCH 0')
            p.sp()
            resp.data = _msg_att(p)
            p.crlf()
            return
        raise p.err(f'unknown numbered response {name!r}')
    name = p.atom().upper()
    resp.name = name
    if name in (b'OK', b'NO', b'BAD', b'BYE', b'PREAUTH'):
        p.sp()
        _resp_text(p, resp)
    elif name == b'CAPABILITY':
        caps = []
        while p.peek() == ord(' '):
            p.p += 1
            caps.append(p.atom())
        if b'IMAP4REV1' not in [c.upper() for c in caps]:
            raise p.err('CAPABILITY without IMAP4rev1')
        resp.data = caps
        p.crlf()
    elif name == b'FLAGS':
        p.sp()
        resp.data = p.plist(p.flag).value
        p.crlf()
    elif name in (b'LIST', b'LSUB'):
        p.sp()
        attrs = p.plist(p.flag).value
        for a in attrs:
            if not a.startswith(b'\\'):
                raise p.err(f'mailbox attribute without backslash {a!r}')
        p.sp()
        if p.peek() == 0x22:
            delim = p.quoted()
            if len(delim) != 1:
                raise p.err('hierarchy delimiter is not one character')
        else:
            p.expect(b'NIL')
            delim = None
        p.sp()
        mbx = _mailbox(p)
        resp.data = {'attrs': attrs, 'delim': delim, 'name': mbx}
        p.crlf()
    elif name == b'SEARCH':
        nums = []
        while p.peek() == ord(' '):
            p.p += 1
            n = p.number()
            if n == 0:
                raise p.err('SEARCH result 0')
            nums.append(n)
        resp.data = nums
        p.crlf()
    elif name == b'STATUS':
        p.sp()
        mbx = _mailbox(p)
        p.sp()
        items: dict[bytes, Any] = {}
        p.expect(b'(')
        first = True
        while p.peek() != ord(')'):
            if not first:
                p.sp()
            first = False
            att = p.atom().upper()
            p.sp()
            if att == b'MAILBOXID':
                p.expect(b'(')
                oid = p.atom()
                if not _objectid_ok(oid):
                    raise p.err('bad objectid')
                p.expect(b')')
                items[att] = oid
            elif att in (b'MESSAGES', b'RECENT', b'UIDNEXT', b'UIDVALIDITY',
                         b'UNSEEN', b'SIZE', b'DELETED', b'HIGHESTMODSEQ'):
                items[att] = p.number()
            else:
                raise p.err(f'unknown status attribute {att!r}')
        p.expect(b')')
        resp.data = {'name': mbx, 'items': items}
        p.crlf()
    elif name == b'ID':
        p.sp()
        if p.d.startswith(b'NIL', p.p):
            p.p += 3
            resp.data = None
        else:
            toks = p.plist(p.nstring).value
            if len(toks) % 2:
                raise p.err('odd ID parameter list')
            for k in toks[0::2]:
                if k.isnil:
                    raise p.err('NIL ID key')
            resp.data = [(toks[i].value, toks[i + 1].value)
                         for i in range(0, len(toks), 2)]
        p.crlf()
    else:
        raise p.err(f'unknown untagged response {name!r}')


# -- FETCH data ----------------------------------------------------------------

def _section(p: _P) -> bytes:
    """section incl. brackets, returned canonically as bytes."""
    s = p.p
    p.expect(b'[')
    if p.peek() != ord(']'):
        # section-part *("." ...)
        while 0x30 <= p.peek() <= 0x39:
            n = p.number()
            if n == 0:
                raise p.err('section part 0')
            if p.peek() == ord('.'):
                p.p += 1
            else:
                break
        if p.peek() != ord(']'):
            word = p.take_while(lambda c: c in b'ABCDEFGHIJKLMNOPQRSTUVWXYZ'
                                b'abcdefghijklmnopqrstuvwxyz.')
            w = word.upper()
            if w in (b'HEADER', b'TEXT', b'MIME'):
                pass
            elif w in (b'HEADER.FIELDS', b'HEADER.FIELDS.NOT'):
                p.sp()
                hl = p.plist(p.astring).value
                if not hl:
                    raise p.err('empty header-list')
            else:
                raise p.err(f'unknown section text {word!r}')
    p.expect(b']')
    return p.d[s:p.p]


def _msg_att(p: _P) -> dict[bytes, Any]:
    items: dict[bytes, Any] = {}
    p.expect(b'(')
    first = True
    while True:
        if p.peek() == ord(')'):
            if first:
                raise p.err('empty msg-att')
            p.p += 1
            return items
        if not first:
            p.sp()
        first = False
        name = p.take_while(lambda c: c in b'ABCDEFGHIJKLMNOPQRSTUVWXYZ'
                            b'abcdefghijklmnopqrstuvwxyz0123456789.').upper()
        if not name:
            raise p.err('expected fetch attribute name')
        key = name
        if name in (b'BODY', b'BINARY', b'BINARY.SIZE') \
                and p.peek() == ord('['):
            sec = _section(p)
            key = name + sec
            if p.peek() == ord('<'):
                p.p += 1
                off = p.number()
                p.expect(b'>')
                key += b'<%d>' % off
            p.sp()
            if name == b'BINARY.SIZE':
                items[key] = p.number()
            else:
                items[key] = p.nstring()
            continue
        p.sp()
        if name == b'FLAGS':
            items[key] = p.plist(p.flag).value
        elif name == b'UID':
            n = p.number()
            if n == 0:
                raise p.err('UID 0')
            items[key] = n
        elif name == b'RFC822.SIZE':
            items[key] = p.number()
        elif name == b'INTERNALDATE':
            dt = p.quoted()
            _check_datetime(p, dt)
            items[key] = dt
        elif name in (b'RFC822', b'RFC822.HEADER', b'RFC822.TEXT'):
            items[key] = p.nstring()
        elif name == b'ENVELOPE':
            items[key] = _envelope(p)
        elif name in (b'BODY', b'BODYSTRUCTURE'):
            items[key] = _body(p, 0)
        elif name == b'EMAILID':
            p.expect(b'(')
            oid = p.atom()
            if not _objectid_ok(oid):
                raise p.err('bad objectid')
            p.expect(b')')
            items[key] = oid
        elif name == b'THREADID':
            if p.d.startswith(b'NIL', p.p):
                p.p += 3
                items[key] = None
            else:
                p.expect(b'(')
                oid = p.atom()
                if not _objectid_ok(oid):
                    raise p.err('bad objectid')
                p.expect(b')')
                items[key] = oid
        else:
            raise p.err(f'unknown fetch attribute {name!r}')


_MONTHS = (b'Jan', b'Feb', b'Mar', b'Apr', b'May', b'Jun', b'Jul', b'Aug',
           b'Sep', b'Oct', b'Nov', b'Dec')


def _check_datetime(p: _P, dt: bytes) -> None:
    # date-time = DQUOTE date-day-fixed "-" date-month "-" date-year SP time
    #             SP zone DQUOTE
    ok = (len(dt) == 26 and (dt[0:1] == b' ' or dt[0:1].isdigit())
          and dt[1:2].isdigit() and dt[2:3] == b'-' and dt[3:6] in _MONTHS
          and dt[6:7] == b'-' and dt[7:11].isdigit() and dt[11:12] == b' '
          and dt[12:14].isdigit() and dt[14:15] == b':'
          and dt[15:17].isdigit() and dt[17:18] == b':'
          and dt[18:20].isdigit() and dt[20:21] == b' '
          and dt[21:22] in b'+-' and dt[22:26].isdigit())
    if not ok:
        raise p.err(f'malformed date-time {dt!r}')


def _address_list(p: _P) -> Any:
    if p.d.startswith(b'NIL', p.p):
        p.p += 3
        return None
    p.expect(b'(')
    addrs = []
    while True:
        p.expect(b'(')
        a = [p.nstring()]
        for _ in range(3):
            p.sp()
            a.append(p.nstring())
        p.expect(b')')
        addrs.append(tuple(t.value for t in a))
        if p.peek() == ord(')'):
            p.p += 1
            return addrs
        # address lists have no SP between addresses (RFC 3501), but a
        # single SP is widely emitted and accepted; tolerate either.
        if p.peek() == ord(' '):
            p.p += 1


def _envelope(p: _P) -> dict[str, Any]:
    env: dict[str, Any] = {}
    p.expect(b'(')
    env['date'] = p.nstring().value
    p.sp()
    env['subject'] = p.nstring().value
    for name in ('from', 'sender', 'reply-to', 'to', 'cc', 'bcc'):
        p.sp()
        env[name] = _address_list(p)
    p.sp()
    env['in-reply-to'] = p.nstring().value
    p.sp()
    env['message-id'] = p.nstring().value
    p.expect(b')')
    return env


def _fld_param(p: _P) -> Any:
    if p.d.startswith(b'NIL', p.p):
        p.p += 3
        return None
    toks = p.plist(p.string).value
    if not toks or len(toks) % 2:
        raise p.err('body-fld-param needs a non-empty even list')
    return [(toks[i].value, toks[i + 1].value)
            for i in range(0, len(toks), 2)]


def _body_ext(p: _P, depth: int = 0) -> None:
    """body-extension = nstring / number / "(" body-extension *(SP ..) ")" """
    if depth > 50:
        raise p.err('body-extension too deep')
    c = p.peek()
    if c == ord('('):
        p.plist(lambda: _body_ext(p, depth + 1))
    elif 0x30 <= c <= 0x39:
        p.number()
    else:
        p.nstring()


def _ext_tail(p: _P) -> None:
    """[SP body-fld-dsp [SP body-fld-lang [SP body-fld-loc *(SP ext)]]]"""
    if p.peek() != ord(' '):
        return
    p.sp()
    # body-fld-dsp
    if p.d.startswith(b'NIL', p.p):
        p.p += 3
    else:
        p.expect(b'(')
        p.string()
        p.sp()
        _fld_param(p)
        p.expect(b')')
    if p.peek() != ord(' '):
        return
    p.sp()
    # body-fld-lang
    if p.peek() == ord('('):
        lst = p.plist(p.string).value
        if not lst:
            raise p.err('empty body-fld-lang list')
    else:
        p.nstring()
    if p.peek() != ord(' '):
        return
    p.sp()
    p.nstring()  # body-fld-loc
    while p.peek() == ord(' '):
        p.sp()
        _body_ext(p)


def _body(p: _P, depth: int) -> dict[str, Any]:
    if depth > 120:
        raise p.err('body nesting too deep')
    p.expect(b'(')
    out: dict[str, Any] = {}
    if p.peek() == ord('('):
        parts = []
        while p.peek() == ord('('):
            parts.append(_body(p, depth + 1))
        p.sp()
        out['multipart'] = p.string().value
        out['parts'] = parts
        if p.peek() == ord(' '):
            p.sp()
            out['params'] = _fld_param(p)
            _ext_tail(p)
        p.expect(b')')
        return out
    mtype = p.string().value
    p.sp()
    msub = p.string().value
    out['type'] = mtype
    out['subtype'] = msub
    p.sp()
    out['params'] = _fld_param(p)
    p.sp()
    out['id'] = p.nstring().value
    p.sp()
    out['desc'] = p.nstring().value
    p.sp()
    out['enc'] = p.string().value
    p.sp()
    out['octets'] = p.number()
    if mtype.upper() == b'MESSAGE' and msub.upper() == b'RFC822':
        p.sp()
        out['envelope'] = _envelope(p)
        p.sp()
        out['body'] = _body(p, depth + 1)
        p.sp()
        out['lines'] = p.number()
    elif mtype.upper() == b'TEXT':
        p.sp()
        out['lines'] = p.number()
    if p.peek() == ord(' '):
        p.sp()
        p.nstring()  # body-fld-md5
        _ext_tail(p)
    p.expect(b')')
    return out


# -- entry ---------------------------------------------------------------------

def parse_stream(data: bytes, *, tags: Any = None) -> list[Resp]:
    """Parse everything the server wrote on one connection. Raises WireError
    on the first byte that does not fit the grammar."""
    p = _P(data)
    out: list[Resp] = []
    while p.p < len(data):
        start = p.p
        resp = Resp('untagged', start=start)
        if data.startswith(b'+ ', start) or data.startswith(b'+\r\n', start):
            resp.kind = 'cont'
            p.p += 1
            if p.peek() == ord(' '):
                p.p += 1
            resp.text = p.take_while(lambda c: c not in (0x0d, 0x0a))
            if b'\x00' in resp.text:
                raise p.err('NUL in continuation text')
            p.crlf()
        elif data.startswith(b'* ', start):
            p.p += 2
            resp.tag = b'*'
            _parse_untagged(p, resp)
        else:
            resp.kind = 'tagged'
            tag = p.take_while(lambda c: c < 0x80 and c not in _TAG_EXCLUDE)
            if not tag:
                raise p.err('expected tag, "*" or "+"')
            resp.tag = tag
            if tags is not None and tag not in tags:
                raise p.err(f'tagged response with a tag never sent {tag!r}')
            p.sp()
            name = p.atom().upper()
            if name not in (b'OK', b'NO', b'BAD'):
                raise p.err(f'bad tagged condition {name!r}')
            resp.name = name
            p.sp()
            _resp_text(p, resp)
        resp.raw = data[start:p.p]
        out.append(resp)
    return out


def tagged_of(resps: list[Resp], tag: bytes) -> Resp | None:
    for r in resps:
        if r.kind == 'tagged' and r.tag == tag:
            return r
    return None


def untagged_of(resps: list[Resp], name: bytes) -> list[Resp]:
    return [r for r in resps if r.kind == 'untagged' and r.name == name]
