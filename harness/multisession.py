"""Engine for multi-session mailbox programs (C01, C02, C16, C17 share it).

A case is JSON-able::

    {'backend': 'dict'|'maildir', 'init': [flagmask, ...], 'nsess': 2,
     'other': [bool per session: selects Other instead of INBOX],
     'steps': [[sess, op, *raw ints], ...]}

Raw ints are decoded *relative to the issuing session's shadow view* at the
time the step runs, so in-range, boundary, ``*``, stale and out-of-range
addresses all occur by construction.
"""
from __future__ import annotations

import shutil
import tempfile
from typing import Any

from .client import Client, Result, probe_dump, make_message, \
    HarnessProtocolError
from .servers import dict_sim, maildir_sim
from .simloop import Sim

SYSFLAGS = [b'\\Seen', b'\\Flagged', b'\\Deleted', b'\\Answered', b'\\Draft']
USER = 'alice'


def flags_from_mask(mask: int) -> list[bytes]:
    return [f for i, f in enumerate(SYSFLAGS) if mask >> i & 1]


def norm(flags: Any) -> frozenset[bytes]:
    return frozenset(f.lower() if f.startswith(b'\\') else f for f in flags)


class MS:
    def __init__(self, case: dict[str, Any], *, learn: bool = True) -> None:
        self.case = case
        self.backend = case['backend']
        self.tmp: str | None = None
        if self.backend == 'dict':
            self.sim: Sim = dict_sim()
        else:
            self.tmp = tempfile.mkdtemp(prefix='ms-')
            self.sim = maildir_sim(self.tmp, layout=case.get('layout', '++'))
        self.vid = 0
        self.vids: dict[bytes, dict[str, Any]] = {}
        self.labels: list[str] = []
        self.all_uids: dict[bytes, set[int]] = {b'INBOX': set(),
                                                b'Other': set()}
        self.idling: dict[int, bytes] = {}
        self.midlit: dict[int, tuple[bytes, bytes, bytes]] = {}
        self.learn_on_select = learn
        self.learn_each = bool(case.get('learn', True))
        self.trace: list[Any] = []
        setup = Client(self.sim, prefix=b's')
        assert setup.login(USER).ok
        assert setup.command(b'CREATE Other').ok
        for mask in case.get('init', []):
            self._append(setup, b'INBOX', mask)
        for mask in case.get('init_other', []):
            self._append(setup, b'Other', mask)
        setup.command(b'LOGOUT')
        self.clients: list[Client] = []
        self.mailbox: list[bytes] = []
        others = case.get('other') or []
        for k in range(case['nsess']):
            c = Client(self.sim, prefix=b'c%d-' % k)
            if not c.login(USER).ok:
                raise HarnessProtocolError('login failed')
            mbx = b'Other' if k < len(others) and others[k] else b'INBOX'
            # some sessions hold a read-only selection: what they try to
            # change is refused, what they are told must be just as right
            ro = (case.get('examine') or [])[k:k + 1] == [True]
            if ro:
                self.labels.append('examine-session')
            res = c.select(mbx, examine=ro, learn=learn)
            if not res.ok:
                raise HarnessProtocolError('select failed')
            self.clients.append(c)
            self.mailbox.append(mbx)
            self.note_uids(k)

    # -- helpers -----------------------------------------------------------

    def new_vid(self) -> bytes:
        self.vid += 1
        return b'v%d' % self.vid

    def _append(self, c: Client, mbx: bytes, mask: int,
                plus: bool = True) -> Result:
        vid = self.new_vid()
        msg = make_message(vid)
        fl = b' '.join(flags_from_mask(mask))
        head = b'APPEND %s (%s) {%d%s}' % (mbx, fl, len(msg),
                                           b'+' if plus else b'')
        res = c.command(head, msg)
        self.vids[vid] = {'mbx': mbx, 'ok': res.ok}
        return res

    def note_uids(self, k: int) -> None:
        for u in self.clients[k].shadow.view:
            if u is not None:
                self.all_uids[self.mailbox[k]].add(u)

    def truth(self, mbx: bytes = b'INBOX') -> dict[str, Any]:
        d = probe_dump(self.sim, USER, mbx,
                       advance=0.0)
        if d is None:
            raise HarnessProtocolError(f'probe: {mbx!r} missing')
        return d

    def server_view(self, k: int) -> list[int] | None:
        """Glass box: the UIDs, in order, that the server holds for session
        k's selected mailbox (ConnectionState._selected.messages)."""
        st = self.clients[k].conn.state
        sel = getattr(st, '_selected', None)
        if sel is None:
            return None
        return list(sel.messages._sorted)

    def seqset(self, k: int, a: int, b: int, kind: int) -> tuple[bytes,
                                                                 list[int]]:
        """Decode to a wire sequence set and the positions (1-based) it
        denotes in the client's current view (out-of-range dropped)."""
        n = len(self.clients[k].shadow.view)
        x = 1 + a % (n + 2)
        y = 1 + b % (n + 2)
        kind %= 5
        if kind == 0:
            wire, pos = b'%d' % x, [x]
        elif kind == 1:
            wire = b'%d:%d' % (x, y)
            pos = list(range(min(x, y), max(x, y) + 1))
        elif kind == 2:
            wire = b'%d:*' % x
            lo, hi = (min(x, n), max(x, n)) if n else (x, x)
            pos = list(range(lo, hi + 1)) if n else []
        elif kind == 3:
            wire, pos = b'%d,%d' % (x, y), [x, y]
        else:
            wire, pos = b'*', ([n] if n else [])
        pos = sorted({p for p in pos if 1 <= p <= n})
        return wire, pos

    def uidset(self, k: int, a: int, b: int, kind: int) -> tuple[bytes,
                                                                 set[int]]:
        pool = sorted(self.all_uids[self.mailbox[k]]) or [1]
        pool = pool + [pool[-1] + 1, pool[-1] + 7]
        x = pool[a % len(pool)]
        y = pool[b % len(pool)]
        full = self.clients[k].shadow.view
        view = [u for u in full if u is not None]
        top = max(view) if view else 0
        kind %= 5
        if kind in (2, 4) and None in full:
            # '*' is the highest UID of the server-side view; the client
            # cannot resolve it while it has positions of unknown UID
            wire = b'%d:*' % x if kind == 2 else b'*'
            return wire, {None}  # type: ignore[arg-type]
        if kind == 0:
            return b'%d' % x, {x}
        if kind == 1:
            return b'%d:%d' % (x, y), set(range(min(x, y), max(x, y) + 1))
        if kind == 2:
            lo, hi = min(x, top), max(x, top)
            return b'%d:*' % x, (set(range(lo, hi + 1)) if top else set())
        if kind == 3:
            return b'%d,%d' % (x, y), {x, y}
        return b'*', ({top} if top else set())

    # -- one step ----------------------------------------------------------

    def finish_literal(self, k: int) -> Result | None:
        if k not in self.midlit:
            return None
        tag, msg, vid = self.midlit.pop(k)
        c = self.clients[k]
        raw = c.raw_send(msg + b'\r\n')
        resps = c.parse(raw)
        for r in resps:
            c.shadow.apply(r)
        from .wire import tagged_of
        res = Result(tag, raw, resps, tagged_of(resps, tag))
        self.vids[vid]['ok'] = res.ok
        return res

    def step(self, st: list[Any]) -> dict[str, Any]:
        """Execute one step; returns an info dict describing what was sent
        and received (used by the property oracles)."""
        k = st[0] % len(self.clients)
        op = st[1]
        args = list(st[2:]) + [0] * 8
        c = self.clients[k]
        info: dict[str, Any] = {'sess': k, 'op': op, 'res': None,
                                'skipped': False}
        if op == 'tick':
            self.sim.settle(advance=float(args[0] % 4) * 0.6)
            self.poll_idlers()
            return info
        if c.conn.done:
            info['skipped'] = True
            return info
        if k in self.idling:
            if op == 'done':
                tag = self.idling.pop(k)
                raw = c.raw_send(b'DONE\r\n', advance=1.5)
                resps = c.parse(raw)
                for r in resps:
                    c.shadow.apply(r)
                from .wire import tagged_of
                info['res'] = Result(tag, raw, resps, tagged_of(resps, tag))
                info['op'] = 'done'
                if self.learn_each and not c.conn.done:
                    self.learn_unknown(k)
                self.note_uids(k)
            else:
                info['skipped'] = True
            self.poll_idlers()
            return info
        if k in self.midlit:
            info['res'] = self.finish_literal(k)
            info['op'] = 'append_end'
            if self.learn_each:
                self.learn_unknown(k)
            self.note_uids(k)
            self.poll_idlers()
            return info
        mbx = self.mailbox[k]
        other = b'Other' if mbx == b'INBOX' else b'INBOX'
        res: Result | None = None
        if op == 'append':
            dest = other if args[1] % 4 == 0 else mbx
            if args[2] % 3 == 0:   # synchronising literal, split in two
                vid = self.new_vid()
                msg = make_message(vid)
                tag = c.next_tag()
                fl = b' '.join(flags_from_mask(args[0]))
                raw = c.raw_send(b'%s APPEND %s (%s) {%d}\r\n' % (
                    tag, dest, fl, len(msg)))
                self.vids[vid] = {'mbx': dest, 'ok': False}
                if raw.startswith(b'+ '):
                    self.midlit[k] = (tag, msg, vid)
                    info['op'] = 'append_begin'
                else:
                    raise HarnessProtocolError(f'no continuation: {raw!r}')
            else:
                res = self._append(c, dest, args[0])
            info['dest'] = dest
        elif op == 'store':
            uidmode = bool(args[0] % 2)
            mode = [b'FLAGS', b'+FLAGS', b'-FLAGS'][args[4] % 3]
            silent = b'.SILENT' if args[5] % 3 == 0 else b''
            fl = b' '.join(flags_from_mask(args[6]))
            if uidmode:
                wire, uids = self.uidset(k, args[1], args[2], args[3])
                info['uids'] = uids
                res = c.command(b'UID STORE %s %s%s (%s)' % (
                    wire, mode, silent, fl))
            else:
                wire, pos = self.seqset(k, args[1], args[2], args[3])
                info['uids'] = {c.shadow.view[p - 1] for p in pos}
                info['pos'] = pos
                res = c.command(b'STORE %s %s%s (%s)' % (
                    wire, mode, silent, fl), nonuid_data_cmd=True)
            info.update(mode=mode, silent=bool(silent),
                        flags=norm(flags_from_mask(args[6])), uid=uidmode)
        elif op == 'expunge':
            res = c.command(b'EXPUNGE')
        elif op == 'uidexpunge':
            wire, uids = self.uidset(k, args[0], args[1], args[2])
            info['uids'] = uids
            res = c.command(b'UID EXPUNGE %s' % wire)
        elif op == 'kill':
            # one step that leaves an unreported expunge pending for every
            # *other* session: flag one message \Deleted and expunge it
            known = [u for u in c.shadow.view if u is not None]
            if not known:
                res = c.command(b'NOOP')
            else:
                u = known[args[0] % len(known)]
                c.command(b'UID STORE %d +FLAGS.SILENT (\\Deleted)' % u)
                res = c.command(b'UID EXPUNGE %d' % u)
                if args[1] % 2:
                    # ... followed by one that finds nothing left to do
                    c.command(b'EXPUNGE')
                info['uids'] = {u}
                info['op'] = 'uidexpunge'
                self.labels.append('expunge-pending-for-others')
        elif op in ('copy', 'move'):
            uidmode = bool(args[0] % 2)
            word = op.upper().encode()
            if uidmode:
                wire, uids = self.uidset(k, args[1], args[2], args[3])
                info['uids'] = uids
                res = c.command(b'UID %s %s %s' % (word, wire, other))
            else:
                wire, pos = self.seqset(k, args[1], args[2], args[3])
                info['uids'] = {c.shadow.view[p - 1] for p in pos}
                res = c.command(b'%s %s %s' % (word, wire, other))
            info['dest'] = other
            info['uid'] = uidmode
        elif op == 'fetch':
            uidmode = bool(args[0] % 2)
            what = [b'(UID FLAGS)', b'(UID BODY.PEEK[HEADER.FIELDS (X-Vid)])',
                    b'(UID BODY[TEXT])', b'(UID FLAGS RFC822.SIZE)'][
                        args[4] % 4]
            if uidmode:
                wire, uids = self.uidset(k, args[1], args[2], args[3])
                info['uids'] = uids
                res = c.command(b'UID FETCH %s %s' % (wire, what))
            else:
                wire, pos = self.seqset(k, args[1], args[2], args[3])
                info['pos'] = pos
                res = c.command(b'FETCH %s %s' % (wire, what),
                                nonuid_data_cmd=True)
            info['uid'] = uidmode
            info['sets_seen'] = args[4] % 4 == 2
        elif op == 'search':
            uidmode = bool(args[0] % 2)
            view = [u for u in c.shadow.view if u is not None]
            if args[1] % 3 == 0 or not view:
                key = b'ALL'
                info['key'] = 'all'
            elif args[1] % 3 == 1:
                key = b'DELETED'
                info['key'] = 'deleted'
            else:
                u = view[args[2] % len(view)]
                key = b'UID %d' % u
                info['key'] = ('uid', u)
            if uidmode:
                res = c.command(b'UID SEARCH ' + key)
            else:
                res = c.command(b'SEARCH ' + key, nonuid_data_cmd=True)
            info['uid'] = uidmode
        elif op == 'noop':
            res = c.command(b'NOOP')
        elif op == 'check':
            res = c.command(b'CHECK')
        elif op == 'idle':
            tag = c.next_tag()
            raw = c.raw_send(tag + b' IDLE\r\n')
            if b'+ Idling.\r\n' in raw:   # updates may follow at once
                self.idling[k] = tag
                for r in c.parse(raw):
                    c.shadow.apply(r)
            else:
                raise HarnessProtocolError(f'IDLE refused: {raw!r}')
        elif op == 'done':
            info['skipped'] = True
        else:
            raise ValueError(op)
        info['res'] = res
        if self.learn_each and k not in self.idling and k not in self.midlit \
                and not c.conn.done:
            self.learn_unknown(k)
        self.note_uids(k)
        self.poll_idlers()
        return info

    def learn_unknown(self, k: int) -> None:
        """What a client does after EXISTS: ask for the UIDs of positions it
        does not know yet (non-UID FETCH, so no EXPUNGE can be delivered)."""
        c = self.clients[k]
        view = c.shadow.view
        unknown = [i + 1 for i, u in enumerate(view) if u is None]
        if unknown:
            c.command(b'FETCH %d:%d (UID)' % (unknown[0], unknown[-1]),
                      nonuid_data_cmd=True)

    def poll_idlers(self) -> None:
        for k in list(self.idling):
            c = self.clients[k]
            before = c.shadow.foreign_updates
            c.poll()
            if c.shadow.foreign_updates != before:
                self.labels.append('update-inside-idle')
            self.note_uids(k)

    def quiesce(self) -> None:
        """Bring every session out of IDLE / mid-literal states."""
        for k in list(self.midlit):
            self.finish_literal(k)
        for k in list(self.idling):
            self.step([k, 'done'])

    def close(self) -> None:
        try:
            self.sim.close()
        finally:
            if self.tmp:
                shutil.rmtree(self.tmp, ignore_errors=True)

    def __enter__(self) -> 'MS':
        return self

    def __exit__(self, *exc: Any) -> None:
        self.close()


# -- shared Hypothesis strategy -------------------------------------------------

def steps_strategy(max_steps: int, nsess_max: int = 3, *,
                   ops: Any = None) -> Any:
    from hypothesis import strategies as st
    r = st.integers(0, 40)
    opnames = ops or ['append', 'append', 'store', 'store', 'expunge',
                      'expunge', 'uidexpunge', 'copy', 'move', 'fetch',
                      'fetch', 'search', 'noop', 'check', 'idle', 'done',
                      'tick', 'kill', 'kill']
    step = st.tuples(st.integers(0, nsess_max - 1), st.sampled_from(opnames),
                     r, r, r, r, r, r, r).map(list)
    return st.lists(step, min_size=1, max_size=max_steps)
