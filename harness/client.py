"""IMAP client side of the harness: tagged commands with literals, a shadow
client that applies untagged data the way RFC 3501 tells clients to, and probe
sessions that dump a mailbox (DESIGN.md 2.3)."""
from __future__ import annotations

import re
from dataclasses import dataclass, field
from typing import Any

from .simloop import Sim, Conn
from .wire import Resp, WireError, parse_stream, tagged_of, untagged_of

__all__ = ['Client', 'Result', 'Shadow', 'probe_dump', 'lit', 'quote',
           'HarnessProtocolError']


class HarnessProtocolError(Exception):
    """Server output the harness could not interpret in a check that only
    plants benign data (a harness error there, a C07 matter elsewhere)."""


def lit(data: bytes, plus: bool = False, binary: bool = False) -> list[bytes]:
    """Literal spelled as command parts: [b'{n}', data]."""
    head = b'%s{%d%s}' % (b'~' if binary else b'', len(data),
                          b'+' if plus else b'')
    return [head, data]


def quote(data: bytes) -> bytes:
    return b'"' + data.replace(b'\\', b'\\\\').replace(b'"', b'\\"') + b'"'


@dataclass
class Result:
    tag: bytes
    raw: bytes
    resps: list[Resp]
    tagged: Resp | None
    sent: bytes = b''

    @property
    def cond(self) -> bytes | None:
        return self.tagged.name if self.tagged is not None else None

    @property
    def ok(self) -> bool:
        return self.cond == b'OK'

    def untagged(self, name: bytes) -> list[Resp]:
        return untagged_of(self.resps, name)

    @property
    def bye(self) -> bool:
        return bool(self.untagged(b'BYE'))


class Shadow:
    """What an RFC-conforming client holds for the selected mailbox."""

    def __init__(self) -> None:
        self.selected = False
        self.view: list[int | None] = []
        self.flags: list[frozenset[bytes] | None] = []
        self.recent: int | None = None
        self.errors: list[tuple[str, str]] = []
        self.foreign_updates = 0   # EXPUNGE/EXISTS seen (for NT rules)
        self.in_nonuid = False     # answering a non-UID FETCH/STORE/SEARCH
        self.fetch_log: list[tuple[int, int | None, Resp]] = []

    def reset(self) -> None:
        self.selected = False
        self.view = []
        self.flags = []
        self.recent = None

    def begin_select(self) -> None:
        self.reset()
        self.selected = True

    def err(self, sig: str, msg: str) -> None:
        self.errors.append((sig, msg))

    def apply(self, r: Resp) -> None:
        if r.kind != 'untagged' or not self.selected:
            return
        n = r.num
        if r.name == b'EXPUNGE':
            assert n is not None
            if self.in_nonuid:
                self.err('expunge-during-nonuid-command',
                         f'* {n} EXPUNGE while answering a non-UID '
                         f'FETCH/STORE/SEARCH')
            if not 1 <= n <= len(self.view):
                self.err('expunge-out-of-range',
                         f'* {n} EXPUNGE with {len(self.view)} messages')
                return
            del self.view[n - 1]
            del self.flags[n - 1]
            self.foreign_updates += 1
        elif r.name == b'EXISTS':
            assert n is not None
            if n < len(self.view):
                self.err('exists-shrinks',
                         f'* {n} EXISTS with {len(self.view)} messages')
                return
            grow = n - len(self.view)
            self.view.extend([None] * grow)
            self.flags.extend([None] * grow)
            self.foreign_updates += 1
        elif r.name == b'RECENT':
            self.recent = n
        elif r.name == b'FETCH':
            assert n is not None
            if not 1 <= n <= len(self.view):
                self.err('fetch-out-of-range',
                         f'* {n} FETCH with {len(self.view)} messages')
                return
            uid = r.data.get(b'UID')
            if uid is not None:
                known = self.view[n - 1]
                if known is None:
                    if uid in self.view:
                        self.err('uid-at-two-positions',
                                 f'UID {uid} reported at position {n} but '
                                 f'already known at position '
                                 f'{self.view.index(uid) + 1}')
                    self.view[n - 1] = uid
                elif known != uid:
                    self.err('seq-uid-mismatch',
                             f'* {n} FETCH says UID {uid}, client holds UID '
                             f'{known} at position {n}')
            fl = r.data.get(b'FLAGS')
            if fl is not None:
                self.flags[n - 1] = frozenset(
                    f.lower() if f.startswith(b'\\') else f for f in fl)
            # what the client attributes this FETCH to, at arrival time
            self.fetch_log.append((n, self.view[n - 1], r))

    def check_sorted(self) -> None:
        known = [u for u in self.view if u is not None]
        if known != sorted(known) or len(set(known)) != len(known):
            self.err('view-not-ascending', f'client view {self.view}')

    def uid_flags(self) -> dict[int, frozenset[bytes]]:
        return {u: (f or frozenset()) for u, f in zip(self.view, self.flags)
                if u is not None}


class Client:
    def __init__(self, sim: Sim, conn: Conn | None = None, *,
                 prefix: bytes = b't', **connect_kw: Any) -> None:
        self.sim = sim
        self.conn = conn if conn is not None else sim.connect(**connect_kw)
        self.prefix = prefix
        self.n = 0
        self.shadow = Shadow()
        self.log: list[tuple[bytes, bytes]] = []
        self.greeting_raw = self.conn.take()
        self.tags: set[bytes] = set()

    def next_tag(self) -> bytes:
        self.n += 1
        tag = b'%s%d' % (self.prefix, self.n)
        self.tags.add(tag)
        return tag

    def parse(self, raw: bytes) -> list[Resp]:
        try:
            return parse_stream(raw)
        except WireError as exc:
            raise HarnessProtocolError(str(exc)) from exc

    def raw_send(self, data: bytes, advance: float = 0.0) -> bytes:
        out = self.conn.cmd(data, advance=advance)
        self.log.append((data, out))
        return out

    def command(self, *parts: bytes, advance: float = 0.0,
                apply_shadow: bool = True, tag: bytes | None = None,
                nonuid_data_cmd: bool = False) -> Result:
        """Send one command. ``parts`` alternate between line text ending in
        a literal header ``{n}`` and the literal data; e.g.
        ``command(b'APPEND INBOX {5}', b'hello')``. A ``{n+}`` header does
        not wait for the continuation request."""
        if tag is None:
            tag = self.next_tag()
        else:
            self.tags.add(tag)
        out = bytearray()
        sent = bytearray()
        buf = tag + b' ' + parts[0]
        i = 1
        aborted = False
        while True:
            sync = i < len(parts) and re.search(rb'\{\d+\}$', buf) is not None
            plus = i < len(parts) and re.search(rb'\{\d+\+\}$', buf) \
                is not None
            if i < len(parts) and plus:
                buf += b'\r\n' + parts[i]
                i += 1
                continue
            if i < len(parts) and sync:
                data = buf + b'\r\n'
                sent += data
                got = self.raw_send(data, advance)
                out += got
                if not got.endswith(b'\r\n') or \
                        not got[:-2].split(b'\r\n')[-1].startswith(b'+ '):
                    aborted = True
                    break
                buf = parts[i]
                i += 1
                continue
            if i < len(parts):
                raise ValueError('part does not end in a literal header')
            data = buf + b'\r\n'
            sent += data
            out += self.raw_send(data, advance)
            break
        raw = bytes(out)
        resps = self.parse(raw)
        res = Result(tag, raw, resps, tagged_of(resps, tag), bytes(sent))
        if apply_shadow:
            self.shadow.fetch_log.clear()
            self.shadow.in_nonuid = nonuid_data_cmd
            for r in resps:
                self.shadow.apply(r)
            self.shadow.in_nonuid = False
        return res

    # convenience ----------------------------------------------------------

    def login(self, user: str, password: str | None = None) -> Result:
        from .servers import USERS
        if password is None:
            password = USERS[user][0] if user in USERS else 'demopass'
        return self.command(b'LOGIN %s %s' % (user.encode(),
                                              password.encode()))

    def select(self, mailbox: bytes = b'INBOX', examine: bool = False,
               learn: bool = True) -> Result:
        self.shadow.begin_select()
        res = self.command((b'EXAMINE ' if examine else b'SELECT ') + mailbox)
        if not res.ok:
            self.shadow.reset()
        elif learn:
            self.learn()
        return res

    def learn(self) -> Result | None:
        """FETCH 1:* (UID FLAGS) so the shadow knows every UID and flag."""
        if not self.shadow.view:
            return None
        return self.command(b'FETCH 1:* (UID FLAGS)', nonuid_data_cmd=True)

    def poll(self, data: bytes = b'') -> list[Resp]:
        """Collect unsolicited output (IDLE) and apply it to the shadow."""
        raw = self.conn.take()
        self.log.append((b'', raw))
        resps = self.parse(raw)
        for r in resps:
            self.shadow.apply(r)
        return resps


_VID = re.compile(rb'X-Vid:\s*(\S+)', re.I)


def probe_dump(sim: Sim, user: str, mailbox: bytes = b'INBOX', *,
               advance: float = 0.0) -> dict[str, Any] | None:
    """Fresh read-only session dumping one mailbox; None if it does not
    exist. Never claims \\Recent and is ignored by any_selected."""
    c = Client(sim, prefix=b'p')
    try:
        if not c.login(user).ok:
            raise HarnessProtocolError('probe login failed')
        res = c.select(mailbox, examine=True, learn=False)
        if not res.ok:
            return None
        dump: dict[str, Any] = {'messages': {}, 'order': []}
        for r in res.resps:
            if r.kind == 'untagged' and r.name == b'EXISTS':
                dump['exists'] = r.num
            if r.kind == 'untagged' and r.name == b'RECENT':
                dump['recent'] = r.num
            if r.kind == 'untagged' and r.name == b'OK' and r.code:
                if r.code[0] in (b'UIDNEXT', b'UIDVALIDITY', b'UNSEEN'):
                    dump[r.code[0].decode().lower()] = int(r.code[1])
        if dump.get('exists'):
            res = c.command(
                b'UID FETCH 1:* (UID FLAGS INTERNALDATE RFC822.SIZE '
                b'BODY.PEEK[HEADER.FIELDS (X-Vid)])')
            if not res.ok:
                raise HarnessProtocolError(f'probe fetch failed: {res.raw!r}')
            for r in res.untagged(b'FETCH'):
                uid = r.data[b'UID']
                hdr = None
                for k, v in r.data.items():
                    if k.startswith(b'BODY['):
                        hdr = v.value
                m = _VID.search(hdr or b'')
                dump['messages'][uid] = {
                    'seq': r.num,
                    'flags': frozenset(
                        f.lower() if f.startswith(b'\\') else f
                        for f in r.data[b'FLAGS']),
                    'date': r.data.get(b'INTERNALDATE'),
                    'size': r.data.get(b'RFC822.SIZE'),
                    'vid': m.group(1) if m else None,
                }
                dump['order'].append(uid)
        return dump
    finally:
        c.command(b'LOGOUT')


def make_message(vid: bytes | str, *, subject: bytes = b'x',
                 body: bytes = b'body\r\n', extra: bytes = b'') -> bytes:
    if isinstance(vid, str):
        vid = vid.encode()
    return (b'From: a@example.com\r\nSubject: ' + subject + b'\r\nX-Vid: '
            + vid + b'\r\n' + extra + b'\r\n' + body)
