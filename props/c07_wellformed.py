"""C07 - every response is well-formed IMAP.

Programs plant client-chosen data (mailbox names, keywords, tags, ID
parameters, header values, MIME structures, header-field names in every
spelling) and read it back through every command that echoes it, including
error paths. Oracle: the complete byte stream of the connection parses under
the independent strict response grammar in harness/wire.py, and every tagged
response carries a tag that was sent.
"""
from __future__ import annotations

import re
import shutil
import tempfile
from typing import Any

from hypothesis import strategies as st

from harness import gen
from harness.models import mutf7_encode
from harness.runner import CaseOut, case_hash
from harness.wire import parse_stream, WireError

ID = 'C07'
LEVEL = 'exploration'
RULE = ('cases = (backend, Unicode mailbox names, message bytes from the '
        'header/MIME grammars, keywords, a tag over all legal tag bytes, ID '
        'parameters, header-field names with a spelling selector). '
        'Non-trivial = the planted data contains a byte class that needs '
        'care on output (quote, backslash, CR, LF, NUL, 8-bit, parenthesis, '
        'brace, a value of 64 bytes or more, nested MIME) and at least one '
        'command that echoes it completed with OK; distinct by case hash.')
ASSUMPTIONS = ['7-bit-only quoted strings are not demanded (the statement '
               'lists CR, LF, NUL and unescaped quote/backslash)',
               'adversarial mailbox names only on the dict backend (C08 owns '
               'maildir names); maildir gets the message/keyword part',
               'the response text after a response code may be 8-bit']
BUDGET = {'quick': (120, 16), 'thorough': (5000, 16)}

_TAGCHARS = '!#$&\',-./0123456789:;<=>?@ABCXYZ[]^_`abcxyz|}~'


def strategy(tier: str) -> Any:
    name_alpha = st.one_of(
        st.characters(blacklist_categories=('Cs',)),
        st.sampled_from(list('"\\()[]{}%*&-\r\n\t\x00\x7f /.~') + [
            'é', '中', '\U0001f600', 'INBOX', 'inbox']))
    name = st.lists(name_alpha, min_size=1, max_size=8).map(''.join)
    kw = st.one_of(st.sampled_from([b'$kw', b'$Forwarded', b'NonJunk', b'a]b',
                                    b'x}', b'\\Seen', b'\\Flagged',
                                    b'\\Custom', b'k' * 70]),
                   st.text('abcXYZ$-_.019', min_size=1, max_size=8).map(
                       str.encode))
    idparam = st.tuples(gen.text_bytes(20), gen.text_bytes(80) | st.just(
        b'x' * 100)).map(list)
    hname = st.one_of(st.sampled_from([b'Subject', b'To', b'X-Vid', b'a b',
                                       b'"', b'\\', b'(', b')', b']', b'',
                                       b'\xc3\xa9', b'Date', b'From'
                                       b'x' * 70, b'a\nb', b'x\r\ny',
                                       b'n\x00l', b'{3}', b'a]b']),
                      st.text('abcXYZ-', min_size=1, max_size=6).map(
                          str.encode))
    return st.fixed_dictionaries({
        'backend': st.sampled_from(['dict', 'dict', 'dict', 'maildir']),
        'names': st.lists(name, max_size=3),
        'msg': gen.any_message(),
        'keywords': st.lists(kw, max_size=3),
        'tag': st.text(_TAGCHARS, min_size=1, max_size=12).map(str.encode),
        'id': st.lists(idparam, max_size=2),
        'hnames': st.lists(hname, min_size=1, max_size=3),
        'hspell': st.integers(0, 80),
    })


def _spell(v: bytes, k: int) -> bytes | None:
    from harness.models import spellings
    sp = [w for _, w in spellings(v)]
    if not sp:
        return None
    w = sp[k % len(sp)]
    # only non-synchronising literals here: one round trip per command
    if re.match(rb'\{\d+\}\r\n', w):
        w = w.replace(b'}', b'+}', 1)
    return w


def _lit(v: bytes) -> bytes:
    return b'{%d+}\r\n' % len(v) + v


def run_case(case: dict[str, Any]) -> CaseOut:
    from harness.servers import dict_sim, maildir_sim
    out = CaseOut()
    backend = case['backend']
    tmp = None
    if backend == 'dict':
        sim = dict_sim()
    else:
        tmp = tempfile.mkdtemp(prefix='c07-')
        sim = maildir_sim(tmp)
    tags: set[bytes] = set()
    oks = 0
    try:
        conn = sim.connect()
        n = [0]
        base = case['tag']

        def send(cmd: bytes) -> bytes:
            n[0] += 1
            tag = base + b'%d' % n[0]
            tags.add(tag)
            got = conn.cmd(tag + b' ' + cmd + b'\r\n')
            nonlocal oks
            if re.search(rb'(^|\r\n)' + re.escape(tag) + rb' OK', got):
                oks += 1
            return got

        if case['id']:
            params = b' '.join(b'%s %s' % (_spell(k, 1) or b'""',
                                           _spell(v, 2) or b'""')
                               for k, v in case['id'])
            send(b'ID (' + params + b')')
        send(b'LOGIN alice pwalice')
        send(b'ID NIL')
        send(b'CAPABILITY')
        names = case['names'] if backend == 'dict' else []
        for name in names:
            enc = mutf7_encode(name)
            send(b'CREATE ' + _lit(enc))
            send(b'SUBSCRIBE ' + _lit(enc))
            send(b'STATUS ' + _lit(enc) + b' (MESSAGES RECENT UIDNEXT '
                 b'UIDVALIDITY UNSEEN MAILBOXID)')
            send(b'SELECT ' + _lit(enc))
            send(b'SELECT ' + _lit(enc + b'-missing'))
            send(b'EXAMINE ' + _lit(enc))
            send(b'RENAME ' + _lit(enc) + b' ' + _lit(enc + b'x'))
            send(b'DELETE ' + _lit(enc + b'-missing'))
            send(b'COPY 1 ' + _lit(enc))
            send(b'LIST ' + _lit(enc) + b' %')
        send(b'LIST "" *')
        send(b'LIST "" %')
        send(b'LSUB "" *')
        send(b'LIST "" ""')
        msg = case['msg']
        kws = b' '.join(case['keywords'])
        send(b'APPEND INBOX (' + kws + b') ' + _lit(msg))
        # years that need zero padding to stay four digits, and the largest
        when = [b'01-Jan-2020 10:00:00 +0000', b' 1-Jan-0099 00:00:00 +0000',
                b'31-Dec-9999 23:59:59 -1200', b'01-Jan-0001 00:00:00 +0000',
                b'07-Feb-0999 13:00:00 +0530'][case['hspell'] % 5]
        send(b'APPEND INBOX (\\Seen) "' + when + b'" ' + _lit(msg))
        send(b'SELECT INBOX')
        send(b'FETCH 1:* (FLAGS UID INTERNALDATE RFC822.SIZE ENVELOPE)')
        send(b'FETCH 1 (BODY BODYSTRUCTURE)')
        send(b'FETCH 1 (RFC822.HEADER BODY[1.MIME] BODY[TEXT]<0.5> '
             b'BINARY.SIZE[1] BODY[1] BODY[2.1] BODY[HEADER])')
        hn = [_spell(h, case['hspell'] + i) for i, h in
              enumerate(case['hnames'])]
        hn = [h for h in hn if h is not None]
        if hn:
            send(b'FETCH 1 (BODY.PEEK[HEADER.FIELDS (' + b' '.join(hn)
                 + b')])')
            send(b'UID FETCH 1 (BODY[HEADER.FIELDS.NOT (' + b' '.join(hn)
                 + b')]<1.7>)')
        send(b'FETCH 1 (BINARY.PEEK[1] BINARY[]<0.9>)')
        if kws:
            send(b'STORE 1:* +FLAGS (' + kws + b')')
            send(b'UID STORE 1 -FLAGS.SILENT (' + kws + b')')
            send(b'SEARCH OR KEYWORD ' + case['keywords'][0]
                 + b' UNKEYWORD ' + case['keywords'][-1])
        send(b'UID FETCH 1:* (UID EMAILID THREADID FLAGS)')
        send(b'SEARCH ALL')
        send(b'UID SEARCH 1:* NOT DELETED')
        send(b'BOGUS ' + kws)
        send(b'FETCH 1 (' + kws + b')')
        send(b'UID COPY 1:* INBOX')
        send(b'MOVE 1 INBOX')
        send(b'STORE 1 +FLAGS (\\Deleted)')
        send(b'EXPUNGE')
        send(b'NOOP')
        send(b'CLOSE')
        send(b'LOGOUT')
        stream = bytes(conn.writer.all)
    finally:
        sim.close()
        if tmp:
            shutil.rmtree(tmp, ignore_errors=True)
    try:
        parse_stream(stream, tags=tags)
    except WireError as exc:
        # bucket by what was wrong and in which kind of response
        line_start = stream.rfind(b'\r\n', 0, max(exc.pos - 1, 0)) + 2
        head = stream[line_start:line_start + 40]
        m = re.match(rb'(\* \d+ [A-Z]+|\* [A-Z]+|\+|\S+ (OK|NO|BAD))', head)
        where = (m.group(0) if m else head[:12]).decode('latin-1')
        where = re.sub(r'\d+', 'N', where)
        if not where.startswith(('*', '+')):
            where = 'tagged ' + where.split(' ')[-1]
        what = re.sub(r" b['\"].*", '', exc.msg)
        what = re.sub(r'\d+', 'N', what)
        out.fail(f'malformed:{where}:{what}',
                 f'{exc} (backend={backend})')
    planted = b''.join([n.encode('utf-8', 'surrogatepass')
                        for n in case['names']]
                       + [case['msg']] + case['keywords'] + case['hnames']
                       + [x for kv in case['id'] for x in kv])
    special = bool(re.search(rb'["\\\r\n\x00()\{\}\x80-\xff]', planted)) \
        or any(len(v) >= 64 for kv in case['id'] for v in kv) \
        or b'multipart/' in case['msg'].lower() \
        or b'message/rfc822' in case['msg'].lower()
    out.label(backend)
    out.counters['commands'] = n[0]
    out.counters['ok_commands'] = oks
    if special and oks >= 3:
        out.nontrivial = case_hash(case)
    out.sample = {'backend': backend, 'names': case['names'],
                  'msg': case['msg'][:160], 'keywords': case['keywords'],
                  'tag': case['tag'], 'hnames': case['hnames']}
    return out


# -- coverage-guided part (harness/fuzz.py) ----------------------------------------------

FUZZ = {'quick': (600, 4), 'thorough': (30000, 16)}
FUZZ_MAX_LEN = 3000
FUZZ_DICT = gen.FUZZ_MIME_DICT
_SEP = b'\xfe\xfe'


def fuzz_decode(data: bytes) -> Any:
    """0xfe 0xfe separates: message, two mailbox names, two keywords, two
    header names, one ID key/value pair; byte 0 is the spelling selector"""
    if len(data) < 3:
        return None
    parts = data[1:].split(_SEP)
    if not parts[0]:
        return None

    def line(b: bytes, n: int) -> bytes:
        return b[:n].replace(b'\r', b' ').replace(b'\n', b' ')
    names = [p.decode('utf-8', 'replace')[:10] for p in parts[1:3] if p]
    kws = [re.sub(rb'[^A-Za-z0-9$_.\-\]}\\]', b'', p)[:20]
           for p in parts[3:5]]
    hn = [p[:70] for p in parts[5:7] if p] or [b'Subject']
    idp = [[line(parts[7], 20), line(parts[8], 80)]] if len(parts) > 8 else []
    return {'backend': 'dict', 'names': names, 'msg': parts[0],
            'keywords': [k for k in kws if k], 'tag': b'a', 'id': idp,
            'hnames': hn, 'hspell': data[0]}


def fuzz_seeds() -> list[bytes]:
    out = []
    for i, m in enumerate(gen.FUZZ_MESSAGES):
        out.append(bytes([i]) + m)
        out.append(bytes([i]) + m + _SEP + b'box' + _SEP + 'é"x'.encode()
                   + _SEP + b'$kw' + _SEP + b'\\Seen' + _SEP + b'To' + _SEP
                   + b'X-"q' + _SEP + b'name' + _SEP + b'value "q"')
    return out
