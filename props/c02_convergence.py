"""C02 - cross-session convergence: no lost, phantom or stuck updates.

2-4 sessions on one mailbox run generated histories (including stale
addresses); at generated quiescent points, and always at the end, every
session issues NOOP or CHECK and its shadow-client view {uid -> flags} must
equal the ground truth from a fresh probe session - both directions.
"""
from __future__ import annotations

from typing import Any

from hypothesis import strategies as st

from harness.multisession import MS, steps_strategy, norm
from harness.runner import CaseOut, case_hash

ID = 'C02'
LEVEL = 'exploration'
RULE = ('cases = (backend, initial flags, 2-4 sessions on INBOX, history of '
        'APPEND/STORE(.SILENT)/EXPUNGE/UID EXPUNGE/COPY/MOVE/FETCH(BODY[TEXT] '
        'sets \\Seen)/IDLE with generated sync points). Non-trivial = the '
        'history contains a stale access (a command that addressed a UID '
        'another session had already expunged) or two different sessions '
        'changed the same message between two sync points; or (burst cases: '
        'maildir on the threading subsystem, up to 10 rounds in which 2-4 '
        'sessions each send one command before the loop runs) a round in '
        'which at least two commands were in flight together; distinct by '
        'case hash.')
ASSUMPTIONS = ['a session learns the UIDs of newly announced positions with a '
               'non-UID FETCH n:m (UID), as clients do after EXISTS',
               'only system flags are generated (keywords are per-session '
               'on these backends and are covered by C10/C17)',
               'burst cases run on real worker threads: the interleaving is '
               'the operating system\'s, the oracles used there hold for '
               'every interleaving, a failure is recorded without shrinking '
               'and its replay may need several runs']
BUDGET = {'quick': (200, 16), 'thorough': (2500, 16)}

OPS = ['append', 'store', 'store', 'store', 'expunge', 'expunge',
       'uidexpunge', 'copy', 'move', 'fetch', 'fetch', 'noop', 'idle', 'done',
       'sync', 'sync', 'kill']


def strategy(tier: str) -> Any:
    max_steps = 25 if tier == 'quick' else 60
    r = st.integers(0, 40)
    cmd = st.tuples(st.integers(0, 3), st.sampled_from(BURST_OPS), r,
                    r).map(list)
    burst = st.fixed_dictionaries({
        'kind': st.just('burst'),
        'init': st.lists(st.integers(0, 31), min_size=1, max_size=5),
        'nsess': st.sampled_from([2, 3, 4]),
        'rounds': st.lists(st.lists(cmd, min_size=2, max_size=4),
                           min_size=1, max_size=10),
    })
    return st.one_of(_owned(max_steps), _owned(max_steps), burst)


def _owned(max_steps: int) -> Any:
    return st.fixed_dictionaries({
        'backend': st.sampled_from(['dict', 'dict', 'maildir']),
        'init': st.lists(st.integers(0, 31), min_size=1, max_size=6),
        'nsess': st.sampled_from([2, 2, 3, 4]),
        'examine': st.lists(st.sampled_from([False, False, True]), min_size=4,
                            max_size=4),
        'steps': steps_strategy(max_steps, 4, ops=OPS),
        'check': st.booleans(),
    })


def _apply(mode: bytes, old: frozenset[bytes],
           flags: frozenset[bytes]) -> frozenset[bytes]:
    if mode == b'FLAGS':
        return flags
    if mode == b'+FLAGS':
        return old | flags
    return old - flags


def _sync(ms: MS, out: CaseOut, use_check: bool, where: str) -> None:
    ms.quiesce()
    truth = ms.truth()['messages']
    want = {u: m['flags'] - {b'\\recent'} for u, m in truth.items()}
    for j, c in enumerate(ms.clients):
        if c.conn.done:
            continue
        c.command(b'CHECK' if use_check and j % 2 else b'NOOP')
        ms.learn_unknown(j)
        for sig, msg in c.shadow.errors:
            out.fail(sig, f'session {j}: {msg} ({where})')
        c.shadow.errors.clear()
        have = {u: f - {b'\\recent'} for u, f in c.shadow.uid_flags().items()}
        if None in c.shadow.view:
            out.fail('uid-not-learnable',
                     f'session {j} view {c.shadow.view} ({where})')
            continue
        stuck = sorted(set(have) - set(want))
        lost = sorted(set(want) - set(have))
        if stuck:
            out.fail('stuck-expunge',
                     f'session {j} still holds UIDs {stuck} after NOOP; the '
                     f'mailbox has {sorted(want)} ({where})')
        if lost:
            out.fail('lost-new-message',
                     f'session {j} was never told about UIDs {lost}; it '
                     f'holds {sorted(have)} ({where})')
        for u in sorted(set(have) & set(want)):
            if have[u] != want[u]:
                out.fail('stale-flags',
                         f'session {j} holds UID {u} with {sorted(have[u])} '
                         f'but the mailbox has {sorted(want[u])} ({where})')
                break


# -- commands really in flight together (threading subsystem) -------------------------

BURST_OPS = ['append', 'append', 'store', 'store', 'nstore', 'expunge',
             'copy', 'move', 'move', 'fetch', 'noop', 'del', 'check',
             'check']


def _burst_case(case: dict[str, Any]) -> CaseOut:
    """maildir on the threading subsystem (what the command line runs):
    in every round up to four sessions send one command each *before* the
    loop runs, so the commands execute in different worker threads at the
    same time. The interleaving is the operating system's; the oracles used
    here hold for every interleaving: each session's stream obeys the
    sequence-number rules, every command is completed, and after the burst a
    NOOP brings every session to the ground truth."""
    import shutil
    import tempfile
    from harness.client import Client, make_message, probe_dump
    from harness.multisession import flags_from_mask
    from harness.servers import maildir_sim
    from harness.simloop import NoQuiescence
    out = CaseOut()
    out.nondeterministic = True
    tmp = tempfile.mkdtemp(prefix='c02b-')
    sim = maildir_sim(tmp, threads=True)
    overlap = 0
    try:
        setup = Client(sim, prefix=b's')
        assert setup.login('alice').ok
        assert setup.command(b'CREATE Other').ok
        vid = 0
        for mask in case['init']:
            vid += 1
            m = make_message('i%d' % vid)
            fl = b' '.join(flags_from_mask(mask))
            assert setup.command(b'APPEND INBOX (%s) {%d+}' % (fl, len(m)),
                                 m).ok
        setup.command(b'LOGOUT')
        clients = []
        for k in range(case['nsess']):
            c = Client(sim, prefix=b'c%d-' % k)
            assert c.login('alice').ok
            assert c.select(b'INBOX', learn=True).ok
            clients.append(c)

        def learn(c: Client) -> None:
            view = c.shadow.view
            unknown = [i + 1 for i, u in enumerate(view)
                       if u is None or c.shadow.flags[i] is None]
            if unknown and not c.conn.done:
                c.command(b'FETCH %d:%d (UID FLAGS)' % (unknown[0],
                                                        unknown[-1]),
                          nonuid_data_cmd=True)

        def errors(where: str) -> None:
            for j, c in enumerate(clients):
                for sig, msg in c.shadow.errors:
                    out.fail(sig + ':threads', f'session {j}: {msg} '
                             f'({where})')
                c.shadow.errors.clear()

        assigned: dict[tuple[int, int], bytes] = {}
        doomed: set[int] = set()       # UIDs some session flagged \Deleted
        moved: set[int] = set()        # source UIDs of acknowledged MOVEs
        start = probe_dump(sim, 'alice', b'INBOX')
        assert start is not None
        vid_of = {u: m['vid'] for u, m in start['messages'].items()}
        doomed.update(u for u, m in start['messages'].items()
                      if b'\\deleted' in m['flags'])
        for rno, rnd in enumerate(case['rounds']):
            if out.failures:
                break
            pending: dict[int, tuple[bytes, bool, bytes]] = {}
            appended: dict[int, bytes] = {}
            for k, op, a, b in rnd:
                k %= len(clients)
                c = clients[k]
                if k in pending or c.conn.done:
                    continue
                uids = [u for u in c.shadow.view if u is not None]
                n = len(c.shadow.view)
                nonuid = False
                # \\Deleted only through 'del', so that the harness knows
                # which messages an EXPUNGE may take (conservation, below)
                fl = b' '.join(f for f in flags_from_mask(1 + b % 31)
                               if f != b'\\Deleted') or b'\\Seen'
                mode = [b'+FLAGS', b'-FLAGS', b'FLAGS'][a % 3]
                if op == 'append':
                    vid += 1
                    m = make_message('b%d' % vid)
                    cmd = b'APPEND INBOX {%d+}\r\n%s' % (len(m), m)
                    appended[k] = b'b%d' % vid
                elif op == 'store' and uids:
                    pick = uids[a % len(uids):][:1 + b % 3]
                    cmd = b'UID STORE %s %s (%s)' % (
                        b','.join(b'%d' % u for u in pick), mode, fl)
                elif op == 'nstore' and n:
                    cmd = b'STORE %d:%d %s (%s)' % (
                        1 + a % n, 1 + (a + b) % n, mode, fl)
                    nonuid = True
                elif op == 'expunge':
                    cmd = b'EXPUNGE'
                elif op == 'del' and uids:
                    u = uids[a % len(uids)]
                    doomed.add(u)
                    cmd = b'UID STORE %d +FLAGS (\\Deleted)' % u
                elif op in ('copy', 'move') and uids:
                    pick = uids[a % len(uids):][:1 + b % 2]
                    cmd = b'UID %s %s Other' % (
                        op.upper().encode(),
                        b','.join(b'%d' % u for u in pick))
                elif op == 'fetch' and n:
                    cmd = b'FETCH 1:* (UID FLAGS)'
                    nonuid = True
                elif op == 'check':
                    cmd = b'CHECK'       # housekeeping on the UID list
                else:
                    cmd = b'NOOP'
                tag = c.next_tag()
                c.conn.feed(tag + b' ' + cmd + b'\r\n')
                pending[k] = (tag, nonuid, cmd)
            if len(pending) > 1:
                overlap += 1
            try:
                sim.settle(advance=1.0)
            except NoQuiescence:
                out.fail('no-quiescence:threads',
                         f'round {rno}: {[p[2][:40] for p in pending.values()]}'
                         f' never all completed')
                break
            for k, (tag, nonuid, cmd) in pending.items():
                c = clients[k]
                raw = c.conn.take()
                c.log.append((tag + b' ' + cmd, raw))
                try:
                    resps = c.parse(raw)
                except Exception as exc:
                    out.fail('unparseable-output:threads',
                             f'session {k} {cmd[:40]!r}: {exc}')
                    continue
                c.shadow.fetch_log.clear()
                c.shadow.in_nonuid = nonuid
                for r in resps:
                    c.shadow.apply(r)
                c.shadow.in_nonuid = False
                # C04 under real concurrency: a UID is assigned once
                import re as _re
                mu = _re.search(rb'APPENDUID (\d+) (\d+)', raw)
                if mu and k in appended:
                    key = (int(mu.group(1)), int(mu.group(2)))
                    if key in assigned:
                        out.fail('uid-assigned-twice:threads',
                                 f'{key} was reported for {assigned[key]!r} '
                                 f'and for {appended[k]!r}')
                    assigned[key] = appended[k]
                    vid_of[key[1]] = appended[k]
                mm = _re.search(rb' OK \[COPYUID \d+ ([\d:,]+) [\d:,]+\]', raw)
                if mm and cmd.startswith(b'UID MOVE'):
                    for part in mm.group(1).split(b','):
                        lo, _, hi = part.partition(b':')
                        moved.update(range(int(lo), int(hi or lo) + 1))
                if not any(r.kind == 'tagged' and r.tag == tag
                           for r in resps) and not c.conn.done:
                    out.fail('no-completion:threads',
                             f'session {k} {cmd[:60]!r} -> {raw[-160:]!r}')
                if c.conn.done and c.conn.exception is not None:
                    out.fail('connection-died:threads:'
                             + type(c.conn.exception).__name__,
                             f'session {k} {cmd[:60]!r}: '
                             f'{c.conn.exception!r}')
            errors(f'round {rno} {[(k, p[2][:30]) for k, p in pending.items()]}')
            for c in clients:
                learn(c)
            errors(f'after round {rno}')
        # convergence
        if not out.failures:
            sim.settle(advance=1.0)
            d = probe_dump(sim, 'alice', b'INBOX')
            assert d is not None
            want = {u: m['flags'] - {b'\\recent'}
                    for u, m in d['messages'].items()}
            for (uv, u), v in assigned.items():
                got = d['messages'].get(u)
                if got is not None and uv == d.get('uidvalidity') \
                        and got['vid'] != v:
                    out.fail('appenduid-denotes-another-message:threads',
                             f'APPENDUID {uv} {u} was given for {v!r}, UID '
                             f'FETCH finds {got["vid"]!r} there')
            out.counters['burst_appenduids_checked'] = len(assigned)
            # conservation under real concurrency (C14's clause): a message
            # nobody flagged \Deleted is still in INBOX unless a MOVE that
            # was acknowledged took it - and then it is in Other; nothing is
            # in INBOX twice
            other = probe_dump(sim, 'alice', b'Other')
            assert other is not None
            other_vids = [m['vid'] for m in other['messages'].values()]
            inbox_vids = [m['vid'] for m in d['messages'].values()]
            for v in set(inbox_vids):
                if v is not None and inbox_vids.count(v) > 1:
                    out.fail('message-duplicated-in-source:threads',
                             f'{v!r} is in INBOX {inbox_vids.count(v)} '
                             f'times')
            for u, v in sorted(vid_of.items()):
                if u in doomed or v is None:
                    continue
                if u in moved:
                    if v not in other_vids:
                        out.fail('moved-message-lost:threads',
                                 f'UID {u} ({v!r}): a MOVE was acknowledged '
                                 f'for it, it is not in Other '
                                 f'({sorted(set(other_vids))})')
                        break
                    if u in d['messages']:
                        out.fail('moved-message-still-in-source:threads',
                                 f'UID {u} ({v!r}) was moved (acknowledged) '
                                 f'and is still in INBOX')
                        break
                elif u not in d['messages']:
                    out.fail('message-lost:threads',
                             f'UID {u} ({v!r}) was never flagged \\Deleted '
                             f'nor moved, and is gone from INBOX '
                             f'({sorted(d["messages"])})')
                    break
            out.counters['burst_messages_accounted'] = len(vid_of)
            for j, c in enumerate(clients):
                if c.conn.done:
                    continue
                c.command(b'NOOP')
                learn(c)
                errors('final sync')
                have = {u: f - {b'\\recent'}
                        for u, f in c.shadow.uid_flags().items()}
                if set(have) - set(want):
                    out.fail('stuck-expunge:threads',
                             f'session {j} still holds '
                             f'{sorted(set(have) - set(want))}; mailbox '
                             f'{sorted(want)}')
                elif set(want) - set(have):
                    out.fail('lost-new-message:threads',
                             f'session {j} never told about '
                             f'{sorted(set(want) - set(have))}')
                elif have != want:
                    u = [x for x in want if have[x] != want[x]][0]
                    out.fail('stale-flags:threads',
                             f'session {j} UID {u}: {sorted(have[u])} vs '
                             f'{sorted(want[u])}')
        import os as _os
        if out.failures and _os.environ.get('VERIF_DEBUG_LOGS'):
            for j, c in enumerate(clients):
                print(f'--- session {j}')
                for sent, got in c.log[-14:]:
                    print('   C:', sent[:90], '\n   S:', got[-600:])
    finally:
        sim.close()
        shutil.rmtree(tmp, ignore_errors=True)
    out.label('maildir-threads', 'burst', 'sessions=%d' % case['nsess'])
    out.counters['burst_rounds_with_overlap'] = overlap
    if overlap:
        out.nontrivial = case_hash(case)
    out.sample = {'kind': 'burst', 'nsess': case['nsess'],
                  'rounds': [[x[:2] for x in r] for r in case['rounds'][:6]]}
    return out


def run_case(case: dict[str, Any]) -> CaseOut:
    if case.get('kind') == 'burst':
        return _burst_case(case)
    out = CaseOut()
    nontrivial = False
    case = dict(case)
    case['learn'] = True
    with MS(case) as ms:
        gone: set[int] = set()           # UIDs known to be expunged
        touched: dict[int, set[int]] = {}  # uid -> sessions since last sync
        nsync = 0
        for idx, st_ in enumerate(case['steps']):
            if st_[1] == 'sync':
                nsync += 1
                _sync(ms, out, case.get('check', False), f'sync after step '
                      f'{idx}')
                touched.clear()
                continue
            k = st_[0] % len(ms.clients)
            c = ms.clients[k]
            view_before = list(c.shadow.view)
            info = ms.step(st_)
            res = info['res']
            op = info['op']
            for j, cl in enumerate(ms.clients):
                for sig, msg in cl.shadow.errors:
                    out.fail(sig, f'session {j}: {msg}; step={st_}')
                cl.shadow.errors.clear()
            if res is None or info['skipped'] or not res.ok:
                continue
            uids = {u for u in (info.get('uids') or ()) if u is not None}
            if op in ('store', 'fetch', 'copy', 'move', 'uidexpunge') \
                    and uids & gone:
                nontrivial = True
                out.label('stale-access')
            if op in ('store', 'move') or (op == 'fetch'
                                           and info.get('sets_seen')):
                known = {u for u in view_before if u is not None}
                for u in uids & known if info.get('uid') else uids:
                    touched.setdefault(u, set()).add(k)
                    if len(touched[u]) > 1:
                        nontrivial = True
                        out.label('two-writers-one-message')
            if op == 'store' and info['silent']:
                # the client applies its own silent store, as clients do
                sh = c.shadow
                if None in (info.get('uids') or ()) and sh.view:
                    # '*' with positions of unknown UID: the client cannot
                    # tell what it addressed, so it re-reads the flags
                    c.command(b'FETCH 1:* (UID FLAGS)', nonuid_data_cmd=True)
                    hit = []
                elif info['uid']:
                    hit = [i for i, u in enumerate(sh.view)
                           if u is not None and u in uids and u in view_before]
                else:   # positions are stable during a non-UID command
                    hit = [p - 1 for p in info['pos'] if p <= len(sh.view)]
                for i in hit:
                    if sh.flags[i] is not None:
                        sh.flags[i] = _apply(
                            info['mode'], sh.flags[i] - {b'\\recent'},
                            info['flags']) | (sh.flags[i] & {b'\\recent'})
            # track expunges (ground truth, cheap: from the actor's responses)
            if op in ('expunge', 'uidexpunge', 'move'):
                now = set(ms.truth()['messages'])
                for u in list(ms.all_uids[b'INBOX']):
                    if u not in now:
                        gone.add(u)
        _sync(ms, out, case.get('check', False), 'final sync')
        out.labels.extend(set(ms.labels))
    out.label(case['backend'], 'sessions=%d' % case['nsess'],
              'syncpoints=%d' % min(nsync + 1, 4))
    if nontrivial:
        out.nontrivial = case_hash(case)
    out.sample = {'backend': case['backend'], 'nsess': case['nsess'],
                  'init': case['init'],
                  'steps': [[s[0], s[1]] + s[2:6] for s in case['steps'][:12]]}
    return out
