"""C02 - cross-session convergence: no lost, phantom or stuck updates.

2-4 sessions on one mailbox run generated histories (including stale
addresses); at generated quiescent points, and always at the end, every
session issues NOOP or CHECK and its shadow-client view {uid -> flags} must
equal the ground truth from a fresh probe session - both directions.
"""
from __future__ import annotations

from typing import Any

from hypothesis import strategies as st

from harness.multisession import MS, steps_strategy, norm
from harness.runner import CaseOut, case_hash

ID = 'C02'
LEVEL = 'exploration'
RULE = ('cases = (backend, initial flags, 2-4 sessions on INBOX, history of '
        'APPEND/STORE(.SILENT)/EXPUNGE/UID EXPUNGE/COPY/MOVE/FETCH(BODY[TEXT] '
        'sets \\Seen)/IDLE with generated sync points). Non-trivial = the '
        'history contains a stale access (a command that addressed a UID '
        'another session had already expunged) or two different sessions '
        'changed the same message between two sync points; distinct by case '
        'hash.')
ASSUMPTIONS = ['a session learns the UIDs of newly announced positions with a '
               'non-UID FETCH n:m (UID), as clients do after EXISTS',
               'only system flags are generated (keywords are per-session '
               'on these backends and are covered by C10/C17)']
BUDGET = {'quick': (150, 16), 'thorough': (2500, 16)}

OPS = ['append', 'store', 'store', 'store', 'expunge', 'expunge',
       'uidexpunge', 'copy', 'move', 'fetch', 'fetch', 'noop', 'idle', 'done',
       'sync', 'sync']


def strategy(tier: str) -> Any:
    max_steps = 25 if tier == 'quick' else 60
    return st.fixed_dictionaries({
        'backend': st.sampled_from(['dict', 'dict', 'maildir']),
        'init': st.lists(st.integers(0, 31), min_size=1, max_size=6),
        'nsess': st.sampled_from([2, 2, 3, 4]),
        'examine': st.lists(st.sampled_from([False, False, True]), min_size=4,
                            max_size=4),
        'steps': steps_strategy(max_steps, 4, ops=OPS),
        'check': st.booleans(),
    })


def _apply(mode: bytes, old: frozenset[bytes],
           flags: frozenset[bytes]) -> frozenset[bytes]:
    if mode == b'FLAGS':
        return flags
    if mode == b'+FLAGS':
        return old | flags
    return old - flags


def _sync(ms: MS, out: CaseOut, use_check: bool, where: str) -> None:
    ms.quiesce()
    truth = ms.truth()['messages']
    want = {u: m['flags'] - {b'\\recent'} for u, m in truth.items()}
    for j, c in enumerate(ms.clients):
        if c.conn.done:
            continue
        c.command(b'CHECK' if use_check and j % 2 else b'NOOP')
        ms.learn_unknown(j)
        for sig, msg in c.shadow.errors:
            out.fail(sig, f'session {j}: {msg} ({where})')
        c.shadow.errors.clear()
        have = {u: f - {b'\\recent'} for u, f in c.shadow.uid_flags().items()}
        if None in c.shadow.view:
            out.fail('uid-not-learnable',
                     f'session {j} view {c.shadow.view} ({where})')
            continue
        stuck = sorted(set(have) - set(want))
        lost = sorted(set(want) - set(have))
        if stuck:
            out.fail('stuck-expunge',
                     f'session {j} still holds UIDs {stuck} after NOOP; the '
                     f'mailbox has {sorted(want)} ({where})')
        if lost:
            out.fail('lost-new-message',
                     f'session {j} was never told about UIDs {lost}; it '
                     f'holds {sorted(have)} ({where})')
        for u in sorted(set(have) & set(want)):
            if have[u] != want[u]:
                out.fail('stale-flags',
                         f'session {j} holds UID {u} with {sorted(have[u])} '
                         f'but the mailbox has {sorted(want[u])} ({where})')
                break


def run_case(case: dict[str, Any]) -> CaseOut:
    out = CaseOut()
    nontrivial = False
    case = dict(case)
    case['learn'] = True
    with MS(case) as ms:
        gone: set[int] = set()           # UIDs known to be expunged
        touched: dict[int, set[int]] = {}  # uid -> sessions since last sync
        nsync = 0
        for idx, st_ in enumerate(case['steps']):
            if st_[1] == 'sync':
                nsync += 1
                _sync(ms, out, case.get('check', False), f'sync after step '
                      f'{idx}')
                touched.clear()
                continue
            k = st_[0] % len(ms.clients)
            c = ms.clients[k]
            view_before = list(c.shadow.view)
            info = ms.step(st_)
            res = info['res']
            op = info['op']
            for j, cl in enumerate(ms.clients):
                for sig, msg in cl.shadow.errors:
                    out.fail(sig, f'session {j}: {msg}; step={st_}')
                cl.shadow.errors.clear()
            if res is None or info['skipped'] or not res.ok:
                continue
            uids = {u for u in (info.get('uids') or ()) if u is not None}
            if op in ('store', 'fetch', 'copy', 'move', 'uidexpunge') \
                    and uids & gone:
                nontrivial = True
                out.label('stale-access')
            if op in ('store', 'move') or (op == 'fetch'
                                           and info.get('sets_seen')):
                known = {u for u in view_before if u is not None}
                for u in uids & known if info.get('uid') else uids:
                    touched.setdefault(u, set()).add(k)
                    if len(touched[u]) > 1:
                        nontrivial = True
                        out.label('two-writers-one-message')
            if op == 'store' and info['silent']:
                # the client applies its own silent store, as clients do
                sh = c.shadow
                if None in (info.get('uids') or ()) and sh.view:
                    # '*' with positions of unknown UID: the client cannot
                    # tell what it addressed, so it re-reads the flags
                    c.command(b'FETCH 1:* (UID FLAGS)', nonuid_data_cmd=True)
                    hit = []
                elif info['uid']:
                    hit = [i for i, u in enumerate(sh.view)
                           if u is not None and u in uids and u in view_before]
                else:   # positions are stable during a non-UID command
                    hit = [p - 1 for p in info['pos'] if p <= len(sh.view)]
                for i in hit:
                    if sh.flags[i] is not None:
                        sh.flags[i] = _apply(
                            info['mode'], sh.flags[i] - {b'\\recent'},
                            info['flags']) | (sh.flags[i] & {b'\\recent'})
            # track expunges (ground truth, cheap: from the actor's responses)
            if op in ('expunge', 'uidexpunge', 'move'):
                now = set(ms.truth()['messages'])
                for u in list(ms.all_uids[b'INBOX']):
                    if u not in now:
                        gone.add(u)
        _sync(ms, out, case.get('check', False), 'final sync')
        out.labels.extend(set(ms.labels))
    out.label(case['backend'], 'sessions=%d' % case['nsess'],
              'syncpoints=%d' % min(nsync + 1, 4))
    if nontrivial:
        out.nontrivial = case_hash(case)
    out.sample = {'backend': case['backend'], 'nsess': case['nsess'],
                  'init': case['init'],
                  'steps': [[s[0], s[1]] + s[2:6] for s in case['steps'][:12]]}
    return out
