"""C12 - a read-only selection never changes the mailbox.

Differential oracle: one deterministic setup is run twice, with and without a
generated program issued inside a read-only selection (EXAMINE, or SELECT of
the dict demo user's read-only Trash). Afterwards a fresh read-write session
SELECTs the mailbox in both runs: RECENT, the \\Recent UIDs, all flags, UIDs
and sizes must be equal. Inside the selection STORE / EXPUNGE (and APPEND /
COPY / MOVE into a backend-read-only mailbox) must answer NO, CLOSE must
answer OK, and observers must not receive untagged data.
"""
from __future__ import annotations

import re
import shutil
import tempfile
from typing import Any

from hypothesis import strategies as st

from harness.client import Client, make_message
from harness.multisession import flags_from_mask
from harness.runner import CaseOut, case_hash

ID = 'C12'
LEVEL = 'exploration'
RULE = ('cases = (backend, mode examine|trash, initial flags, number of '
        'observers, program of <= 20 message commands with raw-int '
        'arguments). Non-trivial = the program contains a non-PEEK body '
        'fetch, a STORE, an EXPUNGE, a MOVE or a CLOSE that was actually '
        'sent inside the read-only selection; distinct by case hash.')
ASSUMPTIONS = ['APPEND/COPY into the EXAMINEd mailbox itself is legal IMAP '
               'and is not generated for examine mode; in trash mode (backend '
               'read-only mailbox) it is generated and must answer NO',
               'UIDVALIDITY and object ids are masked']
BUDGET = {'quick': (120, 16), 'thorough': (3000, 16)}

OPS = ['fetch-body', 'fetch-body', 'fetch-peek', 'fetch-flags', 'store',
       'store', 'expunge', 'uidexpunge', 'copy', 'move', 'move', 'search',
       'check', 'noop', 'close', 'idle', 'append-other', 'append-self',
       'copy-into', 'rfc822', 'copy-self', 'move-self']


def strategy(tier: str) -> Any:
    r = st.integers(0, 30)
    step = st.tuples(st.sampled_from(OPS), r, r, r, r).map(list)
    return st.fixed_dictionaries({
        'backend': st.sampled_from(['dict', 'dict', 'maildir']),
        'mode': st.sampled_from(['examine', 'examine', 'trash']),
        'init': st.lists(st.integers(0, 31), min_size=1, max_size=5),
        'observers': st.integers(0, 2),
        'prog': st.lists(step, min_size=1, max_size=20),
    })


def _seqset(a: int, b: int, n: int, uid: bool, base: int) -> bytes:
    x = 1 + a % (n + 2)
    y = 1 + b % (n + 2)
    if uid:
        x, y = base + x - 1, base + y - 1
    k = (a + b) % 4
    return [b'%d' % x, b'%d:%d' % (x, y), b'1:*', b'%d:*' % x][k]


def _final_view(sim: Any, user: str, mbx: bytes) -> Any:
    c = Client(sim, prefix=b'z')
    c.login(user)
    res = c.select(mbx, learn=False)
    if not res.ok:
        return ('select-failed', res.raw)
    recent = [r.num for r in res.untagged(b'RECENT')]
    exists = [r.num for r in res.untagged(b'EXISTS')]
    rows = []
    if exists and exists[-1]:
        f = c.command(b'FETCH 1:* (UID FLAGS RFC822.SIZE)')
        for r in f.untagged(b'FETCH'):
            rows.append((r.data[b'UID'], tuple(sorted(
                x.lower() for x in r.data[b'FLAGS'])),
                r.data[b'RFC822.SIZE']))
    c.command(b'LOGOUT')
    return (recent, exists, sorted(rows))


def _run(case: dict[str, Any], with_program: bool,
         out: CaseOut) -> Any:
    from harness.servers import dict_sim, maildir_sim
    backend = case['backend']
    mode = case['mode']
    tmp = None
    if mode == 'trash':
        backend = 'dict'
        sim = dict_sim(demo=True)
        user, mbx = 'demouser', b'Trash'
    elif backend == 'dict':
        sim = dict_sim()
        user, mbx = 'alice', b'INBOX'
    else:
        tmp = tempfile.mkdtemp(prefix='c12-')
        sim = maildir_sim(tmp)
        user, mbx = 'alice', b'INBOX'
    sent_nt = False
    try:
        setup = Client(sim, prefix=b's')
        assert setup.login(user).ok
        setup.command(b'CREATE Other')
        vid = 0
        if mode != 'trash':
            for mask in case['init']:
                vid += 1
                m = make_message('v%d' % vid)
                fl = b' '.join(flags_from_mask(mask))
                setup.command(b'APPEND INBOX (%s) {%d+}' % (fl, len(m)), m)
        setup.command(b'LOGOUT')
        observers = []
        for k in range(case['observers']):
            o = Client(sim, prefix=b'o%d-' % k)
            o.login(user)
            o.select(mbx, examine=(k == 1), learn=True)
            observers.append(o)
        if with_program:
            e = Client(sim, prefix=b'e')
            e.login(user)
            if mode == 'trash':
                res = e.select(mbx, learn=True)
            else:
                res = e.select(mbx, examine=True, learn=True)
            assert res.ok, res.raw
            selected = True
            uid_base = 101 if backend == 'dict' else 1
            for op, a, b, c_, d in case['prog']:
                if e.conn.done:
                    break
                n = len(e.shadow.view)
                if not selected and op not in ('append-other', 'append-self',
                                               'noop', 'close'):
                    op = 'reselect'
                uid = bool(c_ % 2)
                pre = b'UID ' if uid else b''
                ss = _seqset(a, b, n, uid, uid_base)
                expect_no = False
                res = None
                if op == 'reselect' or (op == 'close' and not selected):
                    res = e.select(mbx, examine=(mode != 'trash'),
                                   learn=True)
                    selected = res.ok
                    continue
                if op in ('fetch-body', 'rfc822'):
                    item = [b'(BODY[])', b'(BINARY[])', b'(BODY[1])',
                            b'(BODY[HEADER])'][d % 4] \
                        if op == 'fetch-body' else b'(RFC822 RFC822.TEXT)'
                    res = e.command(pre + b'FETCH ' + ss + b' ' + item)
                    sent_nt = True
                elif op == 'fetch-peek':
                    res = e.command(pre + b'FETCH ' + ss
                                    + b' (BODY.PEEK[] BINARY.PEEK[1])')
                elif op == 'fetch-flags':
                    res = e.command(pre + b'FETCH ' + ss + b' (FLAGS UID)')
                elif op == 'store':
                    mode_ = [b'FLAGS', b'+FLAGS', b'-FLAGS', b'+FLAGS.SILENT'
                             ][d % 4]
                    # any flag list: system flags, none at all, only a
                    # keyword the mailbox does not offer
                    fl = b' '.join(flags_from_mask(a % 32))
                    if b % 4 == 0:
                        fl = [b'', b'$Forwarded', b'$kw \\Seen', b'\\Recent'
                              ][(b // 4) % 4]
                    if not fl or fl == b'$Forwarded':
                        out.label('store-without-permanent-flag')
                    res = e.command(pre + b'STORE ' + ss + b' ' + mode_
                                    + b' (' + fl + b')')
                    expect_no = True
                    sent_nt = True
                elif op == 'expunge':
                    res = e.command(b'EXPUNGE')
                    expect_no = True
                    sent_nt = True
                elif op == 'uidexpunge':
                    res = e.command(b'UID EXPUNGE ' + _seqset(
                        a, b, n, True, uid_base))
                    expect_no = True
                    sent_nt = True
                elif op == 'copy':
                    res = e.command(pre + b'COPY ' + ss + b' Other')
                elif op == 'move':
                    res = e.command(pre + b'MOVE ' + ss + b' Other')
                    sent_nt = True
                elif op == 'search':
                    res = e.command(pre + b'SEARCH ' + [
                        b'ALL', b'UNSEEN', b'NEW', b'DELETED'][a % 4])
                elif op == 'check':
                    res = e.command(b'CHECK')
                elif op == 'noop':
                    res = e.command(b'NOOP')
                elif op == 'close':
                    res = e.command(b'CLOSE')
                    sent_nt = True
                    if not res.ok:
                        out.fail('close-of-readonly-selection-refused',
                                 f'CLOSE -> {res.raw!r} ({backend}, {mode})')
                    selected = False
                    probe = e.command(b'SEARCH ALL')
                    if probe.ok:
                        out.fail('close-did-not-deselect',
                                 f'SEARCH after CLOSE -> {probe.raw!r}')
                        selected = True
                    continue
                elif op == 'idle':
                    tag = e.next_tag()
                    r1 = e.raw_send(tag + b' IDLE\r\n')
                    if b'+ Idling.\r\n' in r1:
                        e.raw_send(b'DONE\r\n', advance=1.5)
                elif op == 'append-other':
                    m = make_message('x%d' % a)
                    res = e.command(b'APPEND Other {%d+}' % len(m), m)
                elif op in ('copy-self', 'move-self'):
                    # into the selected mailbox itself: legal for an EXAMINEd
                    # ordinary mailbox (not generated), refused for a
                    # backend-read-only one
                    if mode != 'trash':
                        continue
                    word = b'COPY ' if op == 'copy-self' else b'MOVE '
                    res = e.command(pre + word + ss + b' Trash')
                    expect_no = True
                    sent_nt = True
                elif op in ('append-self', 'copy-into'):
                    if mode != 'trash':
                        continue
                    # into the backend-read-only mailbox: must be refused
                    if op == 'append-self':
                        m = make_message('y%d' % a)
                        res = e.command(b'APPEND Trash {%d+}' % len(m), m)
                    else:
                        w = Client(sim, prefix=b'w')
                        w.login(user)
                        w.select(b'INBOX')
                        res = w.command([b'COPY 1 Trash', b'MOVE 1 Trash',
                                         b'UID COPY 1:* Trash'][a % 3])
                        w.command(b'LOGOUT')
                    expect_no = True
                    sent_nt = True
                if expect_no and res is not None and res.cond != b'NO':
                    out.fail(f'not-refused-in-readonly:{op}',
                             f'{op} inside a read-only selection -> '
                             f'{res.raw[-160:]!r} ({backend}, {mode})')
            if not e.conn.done:
                e.command(b'LOGOUT')
        # observers must not have been told anything
        for k, o in enumerate(observers):
            res = o.command(b'NOOP')
            noise = [r for r in res.resps if r.kind == 'untagged'
                     and r.name in (b'EXPUNGE', b'EXISTS', b'FETCH',
                                    b'RECENT')]
            if noise and with_program:
                out.fail('observer-notified-of-change',
                         f'observer {k} received {[r.raw for r in noise]} '
                         f'after the read-only program ({backend}, {mode})')
            o.command(b'LOGOUT')
        return _final_view(sim, user, mbx), sent_nt
    finally:
        sim.close()
        if tmp:
            shutil.rmtree(tmp, ignore_errors=True)


def run_case(case: dict[str, Any]) -> CaseOut:
    out = CaseOut()
    ref, _ = _run(case, False, out)
    got, sent_nt = _run(case, True, out)
    if got != ref and not out.failures:
        sig = 'readonly-program-changed-mailbox'
        if got[1] != ref[1] or [r[0] for r in got[2]] != \
                [r[0] for r in ref[2]]:
            sig = 'readonly-program-changed-message-set'
        elif got[0] != ref[0] or any(
                ('\\recent' in a[1]) != ('\\recent' in b[1])
                for a, b in zip(got[2], ref[2])):
            sig = 'readonly-program-consumed-recent'
        elif any(a[1] != b[1] for a, b in zip(got[2], ref[2])):
            sig = 'readonly-program-changed-flags'
        out.fail(sig, f'without the program a fresh SELECT sees {ref}, with '
                 f'it {got}; backend={case["backend"]} mode={case["mode"]} '
                 f'prog={[s[0] for s in case["prog"]]}')
    out.label(case['backend'] if case['mode'] != 'trash' else 'dict',
              case['mode'], 'observers=%d' % case['observers'])
    if sent_nt:
        out.nontrivial = case_hash(case)
    out.sample = {'backend': case['backend'], 'mode': case['mode'],
                  'init': case['init'], 'observers': case['observers'],
                  'prog': [s[:3] for s in case['prog'][:10]]}
    return out
