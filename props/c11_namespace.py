"""C11 - mailbox namespace commands behave as the reference model says.

Programs of <= 25 commands over CREATE / DELETE / RENAME / SUBSCRIBE /
UNSUBSCRIBE / LIST / LSUB / STATUS / SELECT / APPEND with hierarchical names
(wildcard, quote, backslash, newline, non-ASCII components, case variants of
INBOX) on dict, maildir '++' and maildir 'fs'; every response is compared
with a namespace model written from RFC 3501 (own non-regex LIST matcher).
"""
from __future__ import annotations

import os
import re
import shutil
import tempfile
from typing import Any

from hypothesis import strategies as st

from harness import fsmon
from harness.client import Client, HarnessProtocolError
from harness.models import mutf7_encode, mutf7_decode, list_match
from harness.runner import CaseOut, case_hash

ID = 'C11'
LEVEL = 'exploration'
RULE = ('cases = (backend/layout, program of <= 25 namespace commands with '
        'names of depth <= 3 from a component alphabet and reference/pattern '
        'pairs from a pattern grammar). Non-trivial = the program has a '
        'rename of a mailbox with inferiors, a name with a wildcard, '
        'newline or non-ASCII character, or an error-path command (create '
        'existing, delete/rename/select/status missing, INBOX as target); '
        'distinct by case hash.')
ASSUMPTIONS = ['latitude taken from RFC 3501: superior names implied by '
               'CREATE a/b may or may not exist afterwards; DELETE of a name '
               'with inferiors may succeed or be refused; SUBSCRIBE of a '
               'missing name may be refused; RENAME INBOX may be refused '
               '(maildir: not supported) but must follow the model when OK',
               'not generated: names with a trailing delimiter, renaming a '
               'mailbox to its own inferior; a component with "." may be '
               'refused under the "++" layout (the dot nests folder names on '
               'disk) but must not be accepted and then aliased',
               'INBOX counts as permanently subscribed (pinned by the '
               'repository tests)',
               'maildir runs under harness.fsmon confinement to the base '
               'directory']
BUDGET = {'quick': (400, 16), 'thorough': (8000, 16)}

COMPS = ['a', 'b', 'c', 'A', 'Inbox', 'x*', '%y', 'q"t', 'b\\s', 'n\nl', 'é',
         '中 文', 'a b', 'a&b', '~', 'inbox', 'a.b', 'x.y', '.h', 'c.',
         'cur', 'new', 'tmp', 'L' * 300, '\u0131nbox', 'maildirfolder']
PATTERNS = ['*', '%', '%/%', 'a*', '*b', 'a/%', 'a/*', '*/c', 'INB*', 'inbox',
            '%b%', 'a/%/c', '*x*', 'n*', '*\n*', '%l', 'q*', '*é', 'A',
            # a '*' followed later by a '%': the '%' must still stop at the
            # delimiter
            '*/%', '*%', 'a*/%', '*/%/%', '*a%']
PTOKENS = ['*', '%', '/', 'a', 'b', 'c', 'A', '*']
OPS = ['create', 'create', 'create', 'delete', 'rename', 'rename',
       'subscribe', 'unsubscribe', 'list', 'list', 'lsub', 'status',
       'select', 'append', 'append']


def strategy(tier: str) -> Any:
    r = st.integers(0, 40)
    step = st.tuples(st.sampled_from(OPS), r, r, r, r,
                     st.integers(0, 3 * 8 ** 5)).map(list)
    return st.fixed_dictionaries({
        'backend': st.sampled_from(['dict', 'maildir++', 'maildir++',
                                    'maildirfs']),
        'prog': st.lists(step, min_size=1, max_size=25),
    })


def _name(a: int, b: int, existing: list[str]) -> str:
    """decode raw ints to a name: an existing one, a child of an existing
    one, or a fresh name of depth 1..3"""
    k = a % 6
    if existing and k == 0:
        return existing[b % len(existing)]
    if existing and k == 1:
        return existing[b % len(existing)] + '/' + COMPS[(a + b) % len(COMPS)]
    if existing and k == 2:
        # a different name that shares a *string* prefix with an existing
        # one ('a' -> 'ab'; 'ab' -> 'a'): not its inferior, not its superior
        base = existing[b % len(existing)]
        if (a // 6) % 2 and len(base.split('/')[-1]) > 1:
            return base[:-1]
        return base + ['b', ' x', '2', '-'][(a // 12) % 4]
    if k == 3 and (a // 6) % 3 == 0:
        return 'INBOX/' + COMPS[b % 4]          # an inferior of INBOX
    depth = 1 + (a // 6) % 3
    return '/'.join(COMPS[(b + 5 * i + a * i) % len(COMPS)]
                    for i in range(depth))


def _may_refuse(name: str, backend: str) -> bool:
    """names a maildir layout cannot represent: '.' and '..' components
    and over-long ones (both layouts), any dot under Maildir++, the maildir
    sub-directory names cur/new/tmp under the fs layout"""
    if not backend.startswith('maildir'):
        return False
    if backend == 'maildir++' and '.' in name:
        return True
    parts = name.split('/')
    if backend == 'maildirfs' and any(p in ('cur', 'new', 'tmp',
                                            'maildirfolder')
                                      for p in parts):
        return True      # the parent maildir's own sub-directories / files
    if any(len(p.encode()) > 200 for p in parts) or \
            len(name.encode()) > 200 and backend == 'maildir++':
        return True      # longer than a file name can be
    return any(p in ('.', '..') for p in parts)


def _lit(name: str) -> bytes:
    v = mutf7_encode(name)
    return b'{%d+}\r\n' % len(v) + v


def _canon(name: str) -> str:
    # INBOX is case-insensitive in ASCII only: str.upper() would also turn
    # a dotless i (U+0131) into 'I'
    return 'INBOX' if name.isascii() and name.upper() == 'INBOX' else name


def _ancestors(name: str) -> list[str]:
    parts = name.split('/')
    return ['/'.join(parts[:i]) for i in range(1, len(parts))]


def run_case(case: dict[str, Any]) -> CaseOut:
    from harness.servers import dict_sim, maildir_sim
    out = CaseOut()
    backend = case['backend']
    scratch = None
    mon = None
    if backend == 'dict':
        sim = dict_sim(bad_command_limit=None)
    else:
        scratch = tempfile.mkdtemp(prefix='c11-')
        base = os.path.join(scratch, 'base')
        os.makedirs(base)
        os.makedirs(os.path.join(scratch, 'tmp'))
        sim = maildir_sim(base, layout='++' if backend == 'maildir++'
                          else 'fs', bad_command_limit=None)
    nt = False
    old_tmp = tempfile.tempdir
    try:
        if scratch:
            tempfile.tempdir = os.path.join(scratch, 'tmp')
            mon = fsmon.FsMon(allowed_root=scratch, read_ok=('/',))
            mon.__enter__()
        c = Client(sim)
        assert c.login('alice').ok
        names: dict[str, dict[str, Any]] = {'INBOX': {'msgs': [], 'uv': None}}
        maybe: set[str] = set()
        # INBOX is permanently subscribed on this server (the repository's
        # own tests pin 'LSUB "" *' -> INBOX for a fresh user)
        subs: set[str] = {'INBOX'}
        vid = [0]

        def fail(sig: str, msg: str) -> None:
            out.fail(sig + ':' + ('dict' if backend == 'dict' else 'maildir'),
                     f'{msg} (backend={backend})')

        def status(nm: str) -> Any:
            res = c.command(b'STATUS ' + _lit(nm)
                            + b' (MESSAGES UIDNEXT UIDVALIDITY)')
            if not res.ok:
                return None
            items = res.untagged(b'STATUS')[0].data['items']
            return items

        # (every program ends with LIST "" * against the model)
        for step in list(case['prog']) + [['list', 1, 0, 0, 0, 0]]:
            if out.failures or c.conn.done:
                break
            op, a, b, k, d = step[:5]
            p = step[5] if len(step) > 5 else 0
            existing = sorted(n for n in names if n != 'INBOX')
            nm = _canon(_name(a, b, existing))
            if op == 'rename' and existing and a % 5:
                # prefer sources that exist, and those with inferiors
                parents = [x for x in existing
                           if any(y.startswith(x + '/') for y in existing)]
                pool = parents if parents and a % 2 else existing
                # ... and those that are a string prefix of another name
                # without being its superior ('a' next to 'ab')
                twins = [x for x in existing if any(
                    y != x and y.startswith(x) and not y.startswith(x + '/')
                    for y in existing)]
                if twins and a % 3 == 0:
                    pool = twins
                    out.label('rename-source-is-string-prefix-of-sibling')
                nm = pool[b % len(pool)]
                if a % 4 == 0 and any(x.startswith('INBOX/') for x in names):
                    nm = 'INBOX'      # its inferiors must stay where they are
                    out.label('rename-inbox-that-has-inferiors')
            # the Maildir++ layout uses '.' for nesting in its folder names:
            # it may refuse a component with a dot, but if it accepts one it
            # must treat it as that name (and not as an alias of 'x/y')
            dotted = _may_refuse(nm, backend)
            if '.' in nm:
                out.label('name-with-dot')
            if '/' in nm and _canon(nm.split('/')[0]) == 'INBOX':
                # inferiors of INBOX: pymap offers them; they are ordinary
                # names, except that a rename of INBOX leaves them alone
                out.label('inferior-of-inbox')
                nm = 'INBOX/' + nm.split('/', 1)[1]
            if re.search(r'[*%\n]|[^\x00-\x7f]', nm):
                nt = True
                out.label('special-character-name')
            desc = f'{op} {nm!r}'
            if op == 'create':
                res = c.command(b'CREATE ' + _lit(nm))
                if nm == 'INBOX' or nm in names:
                    nt = True
                    out.label('error-path')
                    if res.ok:
                        fail('create-of-existing-accepted',
                             f'{desc} -> {res.raw!r}; existing '
                             f'{sorted(names)}')
                elif nm in maybe:
                    if res.ok:
                        maybe.discard(nm)
                        names[nm] = {'msgs': [], 'uv': None}
                elif not res.ok:
                    if dotted:
                        out.label('dotted-name-refused')
                    else:
                        fail('create-refused', f'{desc} -> {res.raw!r}')
                else:
                    names[nm] = {'msgs': [], 'uv': None}
                    maybe.update(x for x in _ancestors(nm) if x not in names)
            elif op == 'delete':
                res = c.command(b'DELETE ' + _lit(nm))
                kids = [x for x in names if x.startswith(nm + '/')]
                if nm == 'INBOX' or (nm not in names and nm not in maybe):
                    nt = True
                    out.label('error-path')
                    if res.ok:
                        fail('delete-of-missing-accepted',
                             f'{desc} -> {res.raw!r}; existing '
                             f'{sorted(names)}')
                elif nm in names:
                    if res.ok:
                        del names[nm]
                        if kids:
                            maybe.add(nm)
                    elif not kids:
                        fail('delete-refused', f'{desc} -> {res.raw!r}')
                elif res.ok:
                    maybe.discard(nm)
            elif op == 'rename':
                to = _canon(_name(k, d, existing))
                dotted_to = _may_refuse(to, backend)
                if to == nm or nm.startswith(to + '/') or (
                        '/' in to and _canon(to.split('/')[0]) == 'INBOX'):
                    continue
                if to.startswith(nm + '/'):
                    # onto its own inferior: RFC 3501 does not say what
                    # happens, so only "answered, and nothing changes when
                    # the answer is NO" is demanded; after an OK the model
                    # cannot follow and the case ends
                    out.label('rename-onto-own-inferior')
                    res = c.command(b'RENAME ' + _lit(nm) + b' ' + _lit(to))
                    if res.ok or c.conn.done:
                        if c.conn.done:
                            fail('connection-lost',
                                 f'rename {nm!r} -> {to!r}: {res.raw[-160:]!r}')
                        break
                    continue
                res = c.command(b'RENAME ' + _lit(nm) + b' ' + _lit(to))
                desc = f'rename {nm!r} -> {to!r}'
                kids = sorted(x for x in names if x.startswith(nm + '/'))
                if to == 'INBOX' or to in names or \
                        (nm not in names and nm not in maybe):
                    nt = True
                    out.label('error-path')
                    if res.ok:
                        fail('rename-must-be-refused',
                             f'{desc} -> {res.raw!r}; existing '
                             f'{sorted(names)}')
                elif nm == 'INBOX':
                    if res.ok:
                        names[to] = names['INBOX']
                        names['INBOX'] = {'msgs': [], 'uv': None}
                        maybe.discard(to)
                        maybe.update(x for x in _ancestors(to)
                                     if x not in names)
                elif nm in maybe or to in maybe:
                    # renaming an implied superior name: optional behaviour
                    if res.ok:
                        maybe.discard(to)
                        if nm in names:
                            names[to] = names.pop(nm)
                        else:          # an implied name moved: still implied
                            maybe.add(to)
                        maybe.discard(nm)
                        for x in kids:
                            names[to + x[len(nm):]] = names.pop(x)
                        for x in [y for y in maybe
                                  if y.startswith(nm + '/')]:
                            maybe.discard(x)
                            maybe.add(to + x[len(nm):])
                        maybe.update(x for x in _ancestors(to)
                                     if x not in names)
                elif not res.ok:
                    if dotted_to:
                        out.label('dotted-name-refused')
                    else:
                        fail('rename-refused', f'{desc} -> {res.raw!r}')
                else:
                    if kids:
                        nt = True
                        out.label('rename-with-inferiors')
                    names[to] = names.pop(nm)
                    for x in kids:
                        names[to + x[len(nm):]] = names.pop(x)
                    # implied names below the old name move along
                    for x in [y for y in maybe if y.startswith(nm + '/')]:
                        maybe.discard(x)
                        maybe.add(to + x[len(nm):])
                    maybe.update(x for x in _ancestors(to) if x not in names)
                    for y in kids:
                        maybe.update(_ancestors(to + y[len(nm):]))
                    maybe -= set(names)
                    # messages, UIDs and UIDVALIDITY moved along
                    for x in [to] + [to + y[len(nm):] for y in kids]:
                        st_ = status(x)
                        if st_ is None:
                            fail('renamed-mailbox-missing',
                                 f'{desc}: STATUS {x!r} refused')
                            break
                        m = names[x]
                        if st_[b'MESSAGES'] != len(m['msgs']) or (
                                m['uv'] is not None
                                and st_[b'UIDVALIDITY'] != m['uv']):
                            fail('rename-lost-messages-or-uidvalidity',
                                 f'{desc}: {x!r} now {st_}, model has '
                                 f'{len(m["msgs"])} messages, UIDVALIDITY '
                                 f'{m["uv"]}')
                            break
            elif op in ('subscribe', 'unsubscribe'):
                res = c.command(op.upper().encode() + b' ' + _lit(nm))
                if res.ok:
                    if nm != 'INBOX':
                        (subs.add if op == 'subscribe' else subs.discard)(nm)
                elif nm in names:
                    fail(f'{op}-refused', f'{desc} -> {res.raw!r}')
            elif op in ('list', 'lsub'):
                ref = ['', '', 'a', 'a/', nm + '/', nm][k % 6]
                pat = PATTERNS[d % len(PATTERNS)] if a % 5 else nm
                if p % 3:
                    # composed from tokens: every order of '*', '%', the
                    # delimiter and name fragments up to five tokens long
                    q, pat = p // 3, ''
                    for _ in range(1 + q % 5):
                        q //= 8
                        pat += PTOKENS[q % 8]
                    if '*' in pat and '%' in pat:
                        out.label('pattern-mixes-star-and-percent')
                query = ref + pat
                try:
                    res = c.command(op.upper().encode() + b' ' + _lit(ref)
                                    + b' ' + _lit(pat))
                except HarnessProtocolError as exc:
                    fail(f'{op}-response-unparseable', str(exc))
                    break
                if not res.ok:
                    fail(f'{op}-refused', f'{op} {ref!r} {pat!r} -> '
                         f'{res.raw!r}')
                    break
                listed: dict[str, list[bytes]] = {}
                bad = False
                for r in res.untagged(op.upper().encode()):
                    try:
                        listed[_canon(mutf7_decode(r.data['name']))] = \
                            [x.lower() for x in r.data['attrs']]
                    except ValueError:
                        fail(f'{op}-reports-invalid-mutf7',
                             f'{r.data["name"]!r}')
                        bad = True
                if bad:
                    break
                selectable = {n for n, at in listed.items()
                              if b'\\noselect' not in at}
                noselect = set(listed) - selectable
                if op == 'list':
                    must = {n for n in names if list_match(
                        query if n != 'INBOX' else query, n)
                        or (n == 'INBOX' and query.isascii() and list_match(query.upper(),
                                                        'INBOX'))}
                    may = must | {n for n in maybe if list_match(query, n)}
                    if not must <= selectable:
                        fail('list-misses-existing-mailbox',
                             f'LIST {ref!r} {pat!r} returned '
                             f'{sorted(listed)}, but {sorted(must - selectable)}'
                             f' exist and match; existing {sorted(names)}')
                    elif not selectable <= may:
                        fail('list-returns-nonmatching-or-missing-mailbox',
                             f'LIST {ref!r} {pat!r} returned '
                             f'{sorted(selectable - may)} which do not exist '
                             f'or do not match; existing {sorted(names)}')
                    else:
                        for n in noselect:
                            if not list_match(query, n) or not any(
                                    x.startswith(n + '/') for x in
                                    list(names) + list(maybe)):
                                fail('list-noselect-entry-unjustified',
                                     f'LIST {ref!r} {pat!r}: \\Noselect '
                                     f'{n!r}; existing {sorted(names)}')
                                break
                else:
                    must = {n for n in subs if n in names
                            and list_match(query, n)}
                    if 'INBOX' in subs and query.isascii() and list_match(query.upper(), 'INBOX'):
                        must.add('INBOX')
                    if not must <= set(listed):
                        fail('lsub-misses-subscribed-mailbox',
                             f'LSUB {ref!r} {pat!r} returned '
                             f'{sorted(listed)}, but {sorted(must)} are '
                             f'subscribed, exist and match')
                    else:
                        for n in listed:
                            anc_ok = any(s.startswith(n + '/') for s in subs)
                            if not (n in subs or anc_ok) or not (
                                    list_match(query, n) or
                                    (n == 'INBOX' and query.isascii()
                                     and list_match(query.upper(),
                                                    'INBOX'))):
                                fail('lsub-returns-unsubscribed-or-'
                                     'nonmatching', f'LSUB {ref!r} {pat!r}: '
                                     f'{n!r}; subscribed {sorted(subs)}')
                                break
            elif op == 'status':
                st_ = status(nm)
                if nm in names:
                    if st_ is None:
                        fail('status-of-existing-refused', desc)
                    else:
                        m = names[nm]
                        if st_[b'MESSAGES'] != len(m['msgs']):
                            fail('status-wrong-count',
                                 f'{desc}: {st_}, model {len(m["msgs"])}')
                        if m['uv'] is None:
                            m['uv'] = st_[b'UIDVALIDITY']
                        elif m['uv'] != st_[b'UIDVALIDITY']:
                            fail('uidvalidity-changed',
                                 f'{desc}: {st_[b"UIDVALIDITY"]} was '
                                 f'{m["uv"]}')
                elif nm not in maybe:
                    nt = True
                    out.label('error-path')
                    if st_ is not None:
                        fail('status-of-missing-accepted',
                             f'{desc} -> {st_}; existing {sorted(names)}')
            elif op == 'select':
                res = c.command(b'SELECT ' + _lit(nm))
                if nm in names:
                    if not res.ok:
                        fail('select-of-existing-refused',
                             f'{desc} -> {res.raw!r}')
                    else:
                        m = names[nm]
                        ex = [r.num for r in res.untagged(b'EXISTS')]
                        f = c.command(b'UID FETCH 1:* (UID BODY.PEEK['
                                      b'HEADER.FIELDS (X-Vid)])')
                        got = []
                        for r in f.untagged(b'FETCH'):
                            hv = [v for kk, v in r.data.items()
                                  if kk.startswith(b'BODY[')]
                            mm = re.search(rb'X-Vid: (\S+)',
                                           hv[0].value if hv else b'')
                            got.append((r.data[b'UID'],
                                        mm.group(1) if mm else None))
                        if ex != [len(m['msgs'])] or sorted(got) != \
                                sorted(m['msgs']):
                            fail('mailbox-content-differs-from-model',
                                 f'{desc}: EXISTS {ex}, messages {got}; '
                                 f'model {m["msgs"]}')
                        c.command(b'CLOSE')
                elif nm not in maybe:
                    nt = True
                    out.label('error-path')
                    if res.ok:
                        fail('select-of-missing-accepted',
                             f'{desc} -> {res.raw[-80:]!r}')
                        c.command(b'CLOSE')
                else:
                    if res.ok:
                        c.command(b'CLOSE')
            elif op == 'append':
                vid[0] += 1
                v = b'v%d' % vid[0]
                msg = b'X-Vid: ' + v + b'\r\n\r\nbody\r\n'
                res = c.command(b'APPEND ' + _lit(nm) + b' {%d+}' % len(msg),
                                msg)
                if nm in names:
                    if not res.ok:
                        fail('append-to-existing-refused',
                             f'{desc} -> {res.raw!r}')
                    else:
                        code = res.tagged.code if res.tagged else None
                        uid = int(code[1].split(b' ')[1]) if code and \
                            code[0] == b'APPENDUID' else None
                        uv = int(code[1].split(b' ')[0]) if uid else None
                        m = names[nm]
                        m['msgs'].append((uid, v))
                        if m['uv'] is None:
                            m['uv'] = uv
                        elif uv is not None and uv != m['uv']:
                            fail('uidvalidity-changed',
                                 f'{desc}: APPENDUID {uv}, was {m["uv"]}')
                elif nm not in maybe and res.ok:
                    fail('append-to-missing-accepted',
                         f'{desc} -> {res.raw!r}')
            if c.conn.done and not out.failures:
                fail('connection-lost',
                     f'{desc}: {c.log[-1][1][-200:]!r}')
    finally:
        if mon is not None:
            mon.__exit__(None, None, None)
            if mon.violations:
                out.fail('path-escape-during-namespace-program',
                         f'{mon.violations[:3]}')
        tempfile.tempdir = old_tmp
        sim.close()
        if scratch:
            shutil.rmtree(scratch, ignore_errors=True)
    out.label(backend)
    if nt:
        out.nontrivial = case_hash(case)
    out.sample = {'backend': backend,
                  'prog': [s[:3] for s in case['prog'][:10]]}
    return out
