"""C10 - message commands behave as the IMAP reference model says.

One acting session runs a generated program of APPEND / STORE / EXPUNGE /
UID EXPUNGE / COPY / MOVE / FETCH / CLOSE+reselect (and UID variants) with
sequence sets from a small grammar; after every command the responses and a
full probe dump of both mailboxes are compared with a plain reference model
written from RFC 3501 / 4315 / 6851.
"""
from __future__ import annotations

import re
import shutil
import tempfile
from typing import Any

from hypothesis import strategies as st

from harness.client import Client, probe_dump, make_message
from harness.runner import CaseOut, case_hash

ID = 'C10'
LEVEL = 'exploration'
RULE = ('cases = (backend, initial messages, program of <= 30 commands with '
        'raw-int arguments decoded against the model state: sequence-set '
        'shapes single / range / reversed range / * / n:* / *:n / list with '
        'duplicates / out-of-range / UIDs of expunged messages; flag sets '
        'incl. keywords and \\Recent). Non-trivial = the program contains a '
        'STORE after a partial EXPUNGE, a UID set naming an expunged UID, a '
        'reversed range, "*" on an empty mailbox, or a MOVE followed by a '
        'COPY back; distinct by case hash.')
ASSUMPTIONS = ['a sequence *number* above the message count may be ignored '
               'or the command refused (both accepted, refused = no change)',
               'keywords PERMANENTFLAGS does not offer are generated but not '
               'compared (the statement speaks of permitted flags)',
               'INTERNALDATE compared only when the client supplied it, at '
               'one-second resolution; \\Recent is ignored here (C17)']
BUDGET = {'quick': (100, 16), 'thorough': (2500, 16)}

SYS = [b'\\seen', b'\\flagged', b'\\deleted', b'\\answered', b'\\draft']
WIRE = {b'\\seen': b'\\Seen', b'\\flagged': b'\\Flagged',
        b'\\deleted': b'\\Deleted', b'\\answered': b'\\Answered',
        b'\\draft': b'\\Draft', b'\\recent': b'\\Recent', b'$kw': b'$kw',
        b'other': b'other'}
ALLF = SYS + [b'$kw', b'other', b'\\recent']
OPS = ['append', 'append', 'store', 'store', 'store', 'uidstore', 'expunge',
       'expunge', 'uidexpunge', 'copy', 'uidcopy', 'move', 'uidmove',
       'fetch', 'uidfetch', 'fetchbody', 'close']


def strategy(tier: str) -> Any:
    r = st.integers(0, 60)
    step = st.tuples(st.sampled_from(OPS), r, r, r, r, r).map(list)
    return st.fixed_dictionaries({
        # 'maildir-threads': the threading subsystem the command line uses
        # (every backend call in a worker thread); commands are still issued
        # one at a time, so the run stays reproducible
        'backend': st.sampled_from(['dict', 'dict', 'dict', 'maildir',
                                    'maildir', 'maildir-threads']),
        'init': st.lists(st.integers(0, 255), max_size=5),
        'prog': st.lists(step, min_size=1, max_size=30),
    })


def _flags(mask: int) -> list[bytes]:
    return [f for i, f in enumerate(ALLF) if mask >> i & 1]


def _spell(f: bytes, k: int) -> bytes:
    """system flags are case-insensitive: canonical, lower, upper or mixed
    letter case, chosen by k"""
    w = WIRE[f]
    if not w.startswith(b'\\'):
        return w
    return [w, w, w.lower(), w.upper(), w.swapcase()][k % 5]


class Msg:
    def __init__(self, uid: int, flags: set[bytes], vid: bytes,
                 date: str | None) -> None:
        self.uid = uid
        self.flags = flags
        self.vid = vid
        self.date = date


class Box:
    def __init__(self, first_uid: int) -> None:
        self.msgs: list[Msg] = []
        self.next = first_uid
        self.gone: list[int] = []

    def uids(self) -> list[int]:
        return [m.uid for m in self.msgs]


def _resolve_seq(spec: list[tuple[Any, Any]], n: int) -> tuple[set[int], bool]:
    """positions addressed, and whether any number exceeds the count"""
    pos: set[int] = set()
    over = False
    for a, b in spec:
        a2 = n if a == '*' else a
        b2 = n if b == '*' else b
        if (a != '*' and a > n) or (b != '*' and b > n) or n == 0:
            over = True
        lo, hi = min(a2, b2), max(a2, b2)
        pos.update(p for p in range(lo, hi + 1) if 1 <= p <= n)
    return pos, over


def _resolve_uid(spec: list[tuple[Any, Any]], uids: list[int]) -> set[int]:
    top = max(uids) if uids else 0
    out: set[int] = set()
    for a, b in spec:
        a2 = top if a == '*' else a
        b2 = top if b == '*' else b
        lo, hi = min(a2, b2), max(a2, b2)
        out.update(u for u in uids if lo <= u <= hi)
    return out


def _wire_set(spec: list[tuple[Any, Any]]) -> bytes:
    parts = []
    for a, b in spec:
        sa = b'*' if a == '*' else b'%d' % a
        sb = b'*' if b == '*' else b'%d' % b
        parts.append(sa if a == b and a != '*' or (a == '*' and b == '*')
                     else sa + b':' + sb)
    return b','.join(parts)


def _gen_set(a: int, b: int, c: int, pool: list[int], out: CaseOut) -> Any:
    """Decode three raw ints into a sequence-set spec over pool (+ extremes)"""
    cand = (pool or [1]) + [(pool[-1] if pool else 1) + 1,
                            (pool[-1] if pool else 1) + 9]
    x = cand[a % len(cand)]
    y = cand[b % len(cand)]
    k = c % 8
    if k == 0:
        return [(x, x)]
    if k == 1:
        return [(min(x, y), max(x, y))]
    if k == 2:
        if x != y:
            out.label('reversed-range')
        return [(max(x, y), min(x, y))]
    if k == 3:
        return [('*', '*')]
    if k == 4:
        return [(x, '*')]
    if k == 5:
        return [('*', x)]
    if k == 6:
        return [(x, x), (y, y), (x, x)]
    return [(x, y), (1, 1)]


def run_case(case: dict[str, Any]) -> CaseOut:
    from harness.servers import dict_sim, maildir_sim
    out = CaseOut()
    backend = case['backend']
    tmp = None
    if backend == 'dict':
        sim = dict_sim()
        first_uid = 101
    else:
        tmp = tempfile.mkdtemp(prefix='c10-')
        sim = maildir_sim(tmp, threads=backend == 'maildir-threads')
        first_uid = 1
    nt = False
    try:
        c = Client(sim)
        assert c.login('alice').ok
        assert c.command(b'CREATE Other').ok
        boxes = {b'INBOX': Box(first_uid), b'Other': Box(first_uid)}
        vid = [0]
        kw_kept: dict[bytes, bool | None] = {b'$kw': None, b'other': None}
        partial_expunge = False
        moved = False

        def do_append(mbx: bytes, mask: int, date: bool) -> Any:
            vid[0] += 1
            v = b'v%d' % vid[0]
            m = make_message(v)
            fl = _flags(mask)
            ds = '07-Feb-2015 13:%02d:%02d +0100' % (vid[0] % 60, mask % 60) \
                if date else None
            cmd = b'APPEND ' + mbx + b' (' + b' '.join(
                _spell(f, mask // 7 + i) for i, f in enumerate(fl)) + b') '
            if any(_spell(f, mask // 7 + i) != WIRE[f]
                   for i, f in enumerate(fl)):
                out.label('flag-in-other-letter-case')
            if ds:
                cmd += b'"' + ds.encode() + b'" '
            res = c.command(cmd + b'{%d+}' % len(m), m)
            box = boxes[mbx]
            if res.ok:
                box.msgs.append(Msg(box.next, set(fl) - {b'\\recent'}, v,
                                    ds))
                code = res.tagged.code if res.tagged else None
                want = b'%d' % box.next
                if code and code[0] == b'APPENDUID' and \
                        code[1].split(b' ')[1] != want:
                    out.fail('appenduid-differs-from-model',
                             f'APPENDUID {code[1]!r}, model UID {want!r}')
                box.next += 1
            else:
                out.fail('append-refused', f'{cmd!r} -> {res.raw!r}')
            return res

        for mask in case['init']:
            do_append(b'INBOX', mask, bool(mask & 1))
        assert c.select(b'INBOX', learn=False).ok
        cur = b'INBOX'

        def compare(where: str) -> bool:
            """dump of both mailboxes vs the model"""
            for name, box in boxes.items():
                d = probe_dump(sim, 'alice', name)
                assert d is not None
                got = d['messages']
                if sorted(got) != box.uids():
                    out.fail('message-set-differs-from-model',
                             f'{where}: {name!r} has UIDs {sorted(got)}, '
                             f'model {box.uids()} ({backend})')
                    return False
                for m in box.msgs:
                    g = got[m.uid]
                    gf = set(g['flags']) - {b'\\recent'}
                    # keywords that PERMANENTFLAGS does not offer are outside
                    # "the named permitted flags": whether APPEND keeps them
                    # and whether STORE FLAGS () drops them is not asserted
                    gf &= set(SYS)
                    m.flags &= set(SYS)
                    if gf != m.flags:
                        out.fail('flags-differ-from-model',
                                 f'{where}: {name!r} UID {m.uid} has '
                                 f'{sorted(gf)}, model {sorted(m.flags)} '
                                 f'({backend})')
                        return False
                    if g['vid'] != m.vid:
                        out.fail('content-differs-from-model',
                                 f'{where}: {name!r} UID {m.uid} is message '
                                 f'{g["vid"]!r}, model {m.vid!r} ({backend})')
                        return False
                    if m.date is not None:
                        want = m.date
                        from datetime import datetime
                        t1 = datetime.strptime(want, '%d-%b-%Y %H:%M:%S %z')
                        t2 = datetime.strptime(g['date'].decode().strip(),
                                               '%d-%b-%Y %H:%M:%S %z')
                        if t1 != t2:
                            out.fail('internaldate-differs-from-model',
                                     f'{where}: UID {m.uid} INTERNALDATE '
                                     f'{g["date"]!r}, supplied {want!r} '
                                     f'({backend})')
                            return False
            return True

        if not compare('after setup'):
            return out

        def apply_expunges(res: Any, box: Box, expected: set[int],
                           what: str) -> bool:
            """replay EXPUNGE responses on the model; all and only the
            expected UIDs must go"""
            view = box.uids()
            removed = []
            for r in res.resps:
                if r.kind == 'untagged' and r.name == b'EXPUNGE':
                    if not 1 <= r.num <= len(view):
                        out.fail('expunge-number-out-of-range',
                                 f'{what}: * {r.num} EXPUNGE with '
                                 f'{len(view)} messages')
                        return False
                    removed.append(view.pop(r.num - 1))
            if set(removed) != expected or len(removed) != len(set(removed)):
                out.fail('expunged-wrong-messages',
                         f'{what}: EXPUNGE responses removed UIDs {removed}, '
                         f'model expects {sorted(expected)} ({backend})')
                return False
            box.gone += removed
            box.msgs = [m for m in box.msgs if m.uid not in expected]
            return True

        for step in case['prog']:
            op, a, b, k, d, e = step
            box = boxes[cur]
            other = b'Other' if cur == b'INBOX' else b'INBOX'
            n = len(box.msgs)
            uid_mode = op.startswith('uid')
            base = op[3:] if uid_mode else op
            what = f'{op} {step[1:]}'
            if op == 'append':
                dest = cur if d % 3 else other
                do_append(dest, e + 64 * (k % 4), bool(k % 2))
                if not compare(what):
                    return out
                continue
            if op == 'close':
                res = c.command(b'CLOSE')
                if not res.ok:
                    out.fail('close-refused', res.raw.decode('latin-1'))
                    return out
                box.gone += [m.uid for m in box.msgs
                             if b'\\deleted' in m.flags]
                box.msgs = [m for m in box.msgs
                            if b'\\deleted' not in m.flags]
                cur = other if d % 2 else cur
                assert c.select(cur, learn=False).ok
                if not compare(what):
                    return out
                continue
            # commands taking a set
            if uid_mode or base == 'expunge':
                pool = sorted(set(box.uids() + box.gone[-3:]))
                spec = _gen_set(a, b, k, pool, out)
                target_uids = _resolve_uid(spec, box.uids())
                if any(x in box.gone for t in spec for x in t
                       if x != '*'):
                    nt = True
                    out.label('uid-of-expunged-message')
                over = False
            else:
                spec = _gen_set(a, b, k, list(range(1, n + 1)), out)
                pos, over = _resolve_seq(spec, n)
                target_uids = {box.msgs[p - 1].uid for p in pos}
            if spec and spec[0][0] == '*' and n == 0:
                nt = True
                out.label('star-on-empty-mailbox')
            if 'reversed-range' in out.labels:
                nt = True
            ws = _wire_set(spec)
            pre = b'UID ' if uid_mode else b''
            if base == 'store':
                mode = [b'FLAGS', b'+FLAGS', b'-FLAGS'][d % 3]
                silent = e % 3 == 0
                fl = _flags(1 + e % 255) if e % 7 else []
                res = c.command(pre + b'STORE ' + ws + b' ' + mode
                                + (b'.SILENT' if silent else b'')
                                + b' (' + b' '.join(
                                    _spell(f, e // 5 + i)
                                    for i, f in enumerate(fl))
                                + b')')
                if any(_spell(f, e // 5 + i) != WIRE[f]
                       for i, f in enumerate(fl)):
                    out.label('flag-in-other-letter-case')
                if partial_expunge:
                    nt = True
                    out.label('store-after-partial-expunge')
                if not res.ok:
                    if not (over or not uid_mode and n == 0):
                        out.fail('store-refused',
                                 f'{what}: {res.sent!r} -> {res.raw!r}')
                        return out
                    out.label('refused-out-of-range')
                else:
                    sysf = {f for f in fl if f in SYS}
                    for m in box.msgs:
                        if m.uid in target_uids:
                            kws = m.flags - set(SYS)
                            cur_sys = m.flags & set(SYS)
                            if mode == b'FLAGS':
                                cur_sys = set(sysf)
                            elif mode == b'+FLAGS':
                                cur_sys |= sysf
                            else:
                                cur_sys -= sysf
                            m.flags = cur_sys | kws
                    # non-silent: exactly the addressed messages are reported
                    if not silent:
                        got_pos = sorted(r.num for r in res.untagged(b'FETCH'))
                        want_pos = sorted(i + 1 for i, m in enumerate(box.msgs)
                                          if m.uid in target_uids)
                        if got_pos != want_pos:
                            out.fail('store-reports-wrong-messages',
                                     f'{what}: {res.sent!r} answered FETCH '
                                     f'for positions {got_pos}, model '
                                     f'{want_pos} ({backend})')
                            return out
                        for r in res.untagged(b'FETCH'):
                            m = box.msgs[r.num - 1]
                            gf = {f.lower() for f in r.data[b'FLAGS']} & set(
                                SYS)
                            if gf != m.flags & set(SYS):
                                out.fail('store-reports-wrong-flags',
                                         f'{what}: position {r.num} reported '
                                         f'{sorted(gf)}, model '
                                         f'{sorted(m.flags & set(SYS))}')
                                return out
            elif base == 'expunge':
                if uid_mode:
                    res = c.command(b'UID EXPUNGE ' + ws)
                    expected = {m.uid for m in box.msgs
                                if b'\\deleted' in m.flags
                                and m.uid in target_uids}
                else:
                    res = c.command(b'EXPUNGE')
                    expected = {m.uid for m in box.msgs
                                if b'\\deleted' in m.flags}
                if not res.ok:
                    out.fail('expunge-refused', f'{what}: {res.raw!r}')
                    return out
                if expected and len(expected) < n:
                    partial_expunge = True
                if not apply_expunges(res, box, expected, what):
                    return out
            elif base in ('copy', 'move'):
                word = base.upper().encode()
                # now and then into the selected mailbox itself
                target = cur if e % 6 == 0 else other
                if target == cur:
                    out.label(base + '-into-the-selected-mailbox')
                res = c.command(pre + word + b' ' + ws + b' ' + target)
                if not res.ok:
                    if not (over or (not uid_mode and n == 0)):
                        out.fail(f'{base}-refused',
                                 f'{what}: {res.sent!r} -> {res.raw!r}')
                        return out
                    out.label('refused-out-of-range')
                else:
                    dest = boxes[target]
                    srcs = [m for m in box.msgs if m.uid in target_uids]
                    pairs = []
                    for m in srcs:
                        dest.msgs.append(Msg(dest.next, set(m.flags), m.vid,
                                             m.date))
                        pairs.append((m.uid, dest.next))
                        dest.next += 1
                    # COPYUID pairs source to destination in order
                    code = None
                    for r in res.resps:
                        if r.code and r.code[0] == b'COPYUID':
                            code = r.code[1]
                    if pairs:
                        if code is None:
                            out.fail('copyuid-missing',
                                     f'{what}: {res.raw!r}')
                            return out
                        _, s_set, d_set = code.split(b' ')
                        if _expand(s_set) != [p[0] for p in pairs] or \
                                _expand(d_set) != [p[1] for p in pairs]:
                            out.fail('copyuid-differs-from-model',
                                     f'{what}: COPYUID {code!r}, model pairs '
                                     f'{pairs} ({backend})')
                            return out
                    if base == 'move':
                        if moved is False:
                            moved = True
                        if not apply_expunges(res, box,
                                              {m.uid for m in srcs}, what):
                            return out
                    elif moved:
                        nt = True
                        out.label('move-then-copy-back')
            elif base in ('fetch', 'fetchbody'):
                variants = [(b'(UID BODY.PEEK[TEXT])', False),
                            (b'(UID BODY[TEXT])', True),
                            (b'(UID RFC822.HEADER)', False),
                            (b'(UID BINARY[1])', True),
                            (b'(UID RFC822)', True),
                            (b'(UID RFC822.TEXT)', True),
                            (b'(UID BINARY.PEEK[1])', False),
                            (b'(UID BODY[HEADER])', True),
                            (b'(UID BINARY.SIZE[1] ENVELOPE BODYSTRUCTURE)',
                             False),
                            (b'(UID BODY[1]<0.2>)', True),
                            (b'(UID RFC822.SIZE INTERNALDATE BODY)', False)]
                items, sets_seen = (b'(UID FLAGS)', False) \
                    if base == 'fetch' else variants[d % len(variants)]
                res = c.command(pre + b'FETCH ' + ws + b' ' + items)
                if not res.ok:
                    if not (over or (not uid_mode and n == 0)):
                        out.fail('fetch-refused',
                                 f'{what}: {res.sent!r} -> {res.raw!r}')
                        return out
                    out.label('refused-out-of-range')
                else:
                    got_uids = sorted(r.data[b'UID']
                                      for r in res.untagged(b'FETCH')
                                      if b'UID' in r.data and
                                      any(kk != b'FLAGS' and kk != b'UID'
                                          for kk in r.data) or
                                      base == 'fetch')
                    got_uids = sorted({r.data[b'UID'] for r in
                                       res.untagged(b'FETCH')
                                       if b'UID' in r.data})
                    if got_uids != sorted(target_uids):
                        out.fail('fetch-returns-wrong-messages',
                                 f'{what}: {res.sent!r} returned UIDs '
                                 f'{got_uids}, model {sorted(target_uids)} '
                                 f'({backend})')
                        return out
                    for r in res.untagged(b'FETCH'):
                        if box.msgs[r.num - 1].uid != r.data.get(b'UID'):
                            out.fail('fetch-position-uid-mismatch',
                                     f'{what}: * {r.num} FETCH UID '
                                     f'{r.data.get(b"UID")}, model position '
                                     f'holds {box.msgs[r.num - 1].uid}')
                            return out
                    if base == 'fetchbody' and sets_seen:
                        for m in box.msgs:
                            if m.uid in target_uids:
                                m.flags.add(b'\\seen')
            if not compare(what):
                return out
    finally:
        sim.close()
        if tmp:
            shutil.rmtree(tmp, ignore_errors=True)
    out.label(backend)
    if nt:
        out.nontrivial = case_hash(case)
    out.sample = {'backend': backend, 'init': case['init'],
                  'prog': [s[:4] for s in case['prog'][:10]]}
    return out


def _expand(s: bytes) -> list[int]:
    out: list[int] = []
    for part in s.split(b','):
        if b':' in part:
            a, b = part.split(b':')
            lo, hi = int(a), int(b)
            out.extend(range(lo, hi + 1) if lo <= hi
                       else range(lo, hi - 1, -1))
        else:
            out.append(int(part))
    return out
