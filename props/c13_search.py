"""C13 - SEARCH returns exactly the matching messages.

Mailboxes of <= 8 generated messages (flags, sizes around the thresholds,
internal and Date: dates around day boundaries, headers and bodies from a
small vocabulary, \\Recent on some, optionally a hidden expunged message) and
search programs from a grammar of every supported key, NOT, OR and
parenthesised lists (depth <= 3).
Oracles: (1) an independent evaluator over the session's own view;
(2) metamorphic: SEARCH vs UID SEARCH, OR commutes, AND commutes, (a) = a,
De Morgan, k / NOT k partition ALL.
"""
from __future__ import annotations

import os
import re
import shutil
import tempfile
from datetime import datetime, timezone
from typing import Any

from hypothesis import strategies as st

from harness.client import Client
from harness.runner import CaseOut, case_hash

os.environ['TZ'] = 'UTC'

ID = 'C13'
LEVEL = 'exploration'
RULE = ('cases = (backend, <= 8 message specs, expunge-hidden flag, a search '
        'program as a tree of raw ints). Non-trivial = nesting depth >= 2, '
        'or a set containing "*", or a string key whose argument is a proper '
        'substring / non-matching extension, or NOT NOT, or a date in a '
        'non-UTC zone, or a date key whose argument equals the '
        'day of some message (boundary), or a view with a hidden expunged '
        'message; distinct by case hash.')
ASSUMPTIONS = ['string arguments are vocabulary words, their substrings and '
               'non-matching extensions in either letter case; messages are '
               'plain 7-bit text without encoded words or folding, so '
               '"contains" is unambiguous',
               'TZ=UTC; "disregarding time and timezone" is taken as "the '
               'day as written": Date: headers (both backends) and APPEND '
               'date-times (dict; maildir stores a timestamp, so +0000 '
               'there) carry zones in which the UTC day differs; every '
               'message has a valid Date: header',
               'a hidden expunged message may or may not be reported']
BUDGET = {'quick': (400, 16), 'thorough': (8000, 16)}

VOCAB = ['alpha', 'bravo', 'charlie', 'delta', 'echo', 'foxtrot', 'golf',
         'hotel', 'india', 'juliet', 'kilo', 'lima']
# tokens that mean something else to a regular expression (or to a parser)
ODD = ['c++', 'a.c', '[dev]', 'x(y', 'q?', 'p|q', '^s', 'e$', 'b\\d', '.*',
       'alpha+', '{2}']
DAYS = [(2020, 1, 31), (2020, 2, 1), (2020, 2, 2), (2020, 3, 1),
        (2019, 12, 31)]
TIMES = ['00:00:00', '23:59:59', '12:00:00', '00:00:01']
MON = ['Jan', 'Feb', 'Mar', 'Apr', 'May', 'Jun', 'Jul', 'Aug', 'Sep', 'Oct',
       'Nov', 'Dec']
OFFS = ['+0000', '+0000', '+0000', '-0500', '+0900', '+1400', '-1200',
        '+0530']
SYSF = ['\\Seen', '\\Flagged', '\\Deleted', '\\Answered', '\\Draft']
SIZES = [0, 40, 100, 101, 300]


def strategy(tier: str) -> Any:
    r = st.integers(0, 200)
    spec = st.lists(r, min_size=10, max_size=10)
    tree = st.recursive(
        st.tuples(st.just('k'), r, r, r).map(list),
        lambda kids: st.one_of(
            st.tuples(st.just('not'), kids).map(list),
            st.tuples(st.just('or'), kids, kids).map(list),
            st.tuples(st.just('and'), st.lists(kids, min_size=1,
                                               max_size=3)).map(list)),
        max_leaves=6)
    return st.fixed_dictionaries({
        'backend': st.sampled_from(['dict', 'dict', 'maildir']),
        'msgs': st.lists(spec, min_size=1, max_size=8),
        'late': st.integers(0, 3),      # how many arrive after SELECT
        'hidden': st.booleans(),
        'keywords': st.integers(0, 255),
        'query': st.lists(tree, min_size=1, max_size=3),
    })


def _day(d: tuple[int, int, int]) -> str:
    return '%d-%s-%d' % (d[2], MON[d[1] - 1], d[0])


def _build(spec: list[int], vid: int) -> dict[str, Any]:
    m: dict[str, Any] = {}
    m['flags'] = {f for i, f in enumerate(SYSF) if spec[0] >> i & 1}
    m['iday'] = DAYS[spec[1] % len(DAYS)]
    m['itime'] = TIMES[spec[2] % len(TIMES)]
    m['sday'] = DAYS[spec[3] % len(DAYS)]
    stime = TIMES[spec[4] % len(TIMES)]
    hdrs = {
        'From': VOCAB[spec[5] % 12] + '@example.com',
        'To': VOCAB[spec[6] % 12] + '@example.com',
        'Subject': VOCAB[spec[7] % 12] + ' ' + VOCAB[(spec[7] // 12) % 12]
        + (' ' + ODD[spec[7] % len(ODD)] if spec[7] % 3 == 0 else ''),
    }
    if spec[8] % 2:
        hdrs['Cc'] = VOCAB[spec[8] % 12] + '@example.com'
    if spec[8] % 3 == 0:
        hdrs['Bcc'] = VOCAB[(spec[8] // 3) % 12] + '@example.com'
    if spec[9] % 2:
        hdrs['X-Custom'] = VOCAB[spec[9] % 12]
    # "disregarding time and timezone": the day as written counts, whatever
    # the zone - so zones are generated in which the UTC day differs
    soff = OFFS[(spec[4] // 4) % len(OFFS)]
    m['ioff'] = OFFS[(spec[2] // 20) % len(OFFS)]
    dt = datetime(*m['sday'], *[int(x) for x in stime.split(':')],
                  tzinfo=timezone.utc)
    hdrs['Date'] = dt.strftime('%a, %d %b %Y %H:%M:%S ') + soff
    m['zoned'] = soff != '+0000'
    hdrs['X-Vid'] = 'v%d' % vid
    body = VOCAB[spec[9] % 12] + ' ' + VOCAB[(spec[9] // 12) % 12] + '\r\n'
    raw = ''.join(f'{k}: {v}\r\n' for k, v in hdrs.items()) + '\r\n' + body
    pad = SIZES[spec[2] % len(SIZES)]
    raw += ('x' * 38 + '\r\n') * (pad // 40)
    m['raw'] = raw.encode()
    m['hdrs'] = hdrs
    m['body'] = raw.split('\r\n\r\n', 1)[1]
    m['size'] = len(m['raw'])
    return m


KEYS = ['ALL', 'ANSWERED', 'DELETED', 'DRAFT', 'FLAGGED', 'SEEN', 'RECENT',
        'UNANSWERED', 'UNDELETED', 'UNDRAFT', 'UNFLAGGED', 'UNSEEN', 'NEW',
        'OLD', 'KEYWORD', 'UNKEYWORD', 'BCC', 'CC', 'FROM', 'TO', 'SUBJECT',
        'HEADER', 'BODY', 'TEXT', 'LARGER', 'SMALLER', 'BEFORE', 'ON',
        'SINCE', 'SENTBEFORE', 'SENTON', 'SENTSINCE', 'UID', 'SEQ', 'SEQ',
        'HEADER-EXISTS', 'TWO-SIZES']


class Ctx:
    def __init__(self, view: list[dict[str, Any]]) -> None:
        self.view = view        # per position: message dict incl. uid, recent
        self.n = len(view)
        self.maxuid = max((m['uid'] for m in view), default=0)
        self.labels: set[str] = set()


def _q(word: str) -> str:
    """an astring: the atom when it is one, else quoted"""
    if re.fullmatch(r'[A-Za-z0-9@.+\-_$^|?\[\]]+', word):
        return word
    return '"' + word.replace('\\', '\\\\').replace('"', '\\"') + '"'


def _leaf(a: int, b: int, c: int, ctx: Ctx) -> tuple[str, Any]:
    """(wire text, predicate(position, message) -> bool)"""
    key = KEYS[a % len(KEYS)]
    word = VOCAB[b % 12]
    # "contains": any substring, any letter case; also a string that is no
    # substring of anything
    variant = (c // 3) % 5
    if variant == 1:
        word = word[1:4]
    elif variant == 2:
        word = word[:3]
    elif variant == 3:
        word = word + 'zz'
    elif variant == 4:
        word = word[-2:] + '@ex'      # spans the end of a local part
    if c % 7 == 0:
        word = ODD[b % len(ODD)]      # taken literally, not as a pattern
        variant = 5

    def mark() -> None:
        if variant:
            ctx.labels.add('substring-argument')
    flagmap = {'ANSWERED': '\\Answered', 'DELETED': '\\Deleted',
               'DRAFT': '\\Draft', 'FLAGGED': '\\Flagged', 'SEEN': '\\Seen'}
    if key == 'ALL':
        return 'ALL', lambda p, m: True
    if key in flagmap:
        return key, lambda p, m, f=flagmap[key]: f in m['flags']
    if key.startswith('UN') and key[2:] in flagmap:
        return key, lambda p, m, f=flagmap[key[2:]]: f not in m['flags']
    if key == 'RECENT':
        return key, lambda p, m: m['recent']
    if key == 'OLD':
        return key, lambda p, m: not m['recent']
    if key == 'NEW':
        return key, lambda p, m: m['recent'] and '\\Seen' not in m['flags']
    if key in ('KEYWORD', 'UNKEYWORD'):
        kw = ['$kw1', '$kw2', 'other'][b % 3]
        want = key == 'KEYWORD'
        return f'{key} {kw}', lambda p, m: (kw in m['kw']) == want
    if key in ('BCC', 'CC', 'FROM', 'TO', 'SUBJECT'):
        mark()
        h = key.capitalize()
        spell = [word, f'"{word}"', word.upper()][c % 3]
        if variant == 5:
            spell = _q(word)
        return f'{key} {spell}', lambda p, m: word in m['hdrs'].get(
            h, '').lower()
    if key == 'HEADER':
        mark()
        h = ['X-Custom', 'Subject', 'x-custom', 'Cc', 'X-Missing'][c % 5]
        real = {'x-custom': 'X-Custom'}.get(h, h)
        return f'HEADER {h} {_q(word)}', lambda p, m: real in m['hdrs'] and \
            word in m['hdrs'][real].lower()
    if key == 'TWO-SIZES':
        # two keys of one kind side by side (a conjunction), with numbers
        # that Python hashes alike: 2**61 - 1 hashes to 0
        big = [2305843009213693951, 2305843009213693952, 4611686018427387902
               ][b % 3]
        small = big % 2305843009213693951
        # bare at the top level of the program, in parentheses elsewhere
        lp, rp = ('', '') if getattr(ctx, 'top', False) else ('(', ')')
        if c % 2:
            return f'{lp}SMALLER {big} SMALLER {small}{rp}', \
                lambda p, m: m['size'] < small
        return f'{lp}LARGER {small} LARGER {big}{rp}', lambda p, m: False
    if key == 'HEADER-EXISTS':
        h = ['X-Custom', 'Bcc', 'Cc', 'X-Missing'][c % 4]
        return f'HEADER {h} ""', lambda p, m: h in m['hdrs']
    if key == 'BODY':
        mark()
        return f'BODY {_q(word)}', lambda p, m: word in m['body'].lower()
    if key == 'TEXT':
        mark()
        return f'TEXT {_q(word)}', lambda p, m: word in m['raw'].decode().lower()
    if key in ('LARGER', 'SMALLER'):
        sizes = sorted({m['size'] for m in ctx.view}) or [100]
        n = sizes[b % len(sizes)] + (c % 3) - 1
        if key == 'LARGER':
            return f'LARGER {n}', lambda p, m: m['size'] > n
        return f'SMALLER {n}', lambda p, m: m['size'] < n
    if key in ('BEFORE', 'ON', 'SINCE', 'SENTBEFORE', 'SENTON', 'SENTSINCE'):
        d = DAYS[b % len(DAYS)]
        field = 'sday' if key.startswith('SENT') else 'iday'
        if any(m[field] == d for m in ctx.view):
            ctx.labels.add('date-on-boundary')
        base = key[4:] if key.startswith('SENT') else key
        spell = _day(d) if c % 2 else '"' + _day(d) + '"'
        if base == 'BEFORE':
            return f'{key} {spell}', lambda p, m: m[field] < d
        if base == 'ON':
            return f'{key} {spell}', lambda p, m: m[field] == d
        return f'{key} {spell}', lambda p, m: m[field] >= d
    # sets
    uid = key == 'UID'
    pool = [m['uid'] for m in ctx.view] if uid else list(
        range(1, ctx.n + 1))
    pool = (pool or [1]) + [(pool[-1] if pool else 1) + 3]
    x, y = pool[b % len(pool)], pool[c % len(pool)]
    shape = (b + c) % 5
    top = ctx.maxuid if uid else ctx.n
    if shape == 0:
        wire, rng = '%d' % x, [(x, x)]
    elif shape == 1:
        wire, rng = '%d:%d' % (x, y), [(min(x, y), max(x, y))]
    elif shape == 2:
        wire, rng = '%d:*' % x, [(min(x, top), max(x, top))]
        ctx.labels.add('set-with-star')
    elif shape == 3:
        wire, rng = '*', [(top, top)]
        ctx.labels.add('set-with-star')
    else:
        wire, rng = '%d,%d' % (x, y), [(x, x), (y, y)]
    if uid:
        return 'UID ' + wire, lambda p, m: any(
            lo <= m['uid'] <= hi for lo, hi in rng)
    return wire, lambda p, m: any(lo <= p <= hi for lo, hi in rng)


def _compile(tree: Any, ctx: Ctx, depth: int = 0,
             under_not: bool = False) -> tuple[str, Any, int]:
    kind = tree[0]
    if kind == 'k':
        ctx.top = depth == 0 and not under_not
        w, f = _leaf(tree[1], tree[2], tree[3], ctx)
        return w, f, depth
    if kind == 'not':
        # (directly nested NOTs are written out: search-key = "NOT" SP
        # search-key, so NOT NOT k is a legal program equivalent to k)
        inner = tree[1]
        if inner[0] == 'not':
            ctx.labels.add('not-not')
        w, f, d = _compile(inner, ctx, depth + 1, True)
        if ' ' in w and not w.startswith('('):
            first = w.split(' ')[0]
            if first in ('OR',) or re.fullmatch(r'[\d:,*]+', first) is None \
                    and first not in KEYS + ['UID', 'HEADER', 'NOT']:
                w = '(' + w + ')'
        return 'NOT ' + w, (lambda p, m: not f(p, m)), d
    if kind == 'or':
        w1, f1, d1 = _compile(tree[1], ctx, depth + 1)
        w2, f2, d2 = _compile(tree[2], ctx, depth + 1)
        return f'OR {w1} {w2}', (lambda p, m: f1(p, m) or f2(p, m)), \
            max(d1, d2)
    parts = [_compile(t, ctx, depth + 1) for t in tree[1]]
    return '(' + ' '.join(p[0] for p in parts) + ')', \
        (lambda p, m: all(q[1](p, m) for q in parts)), \
        max(q[2] for q in parts)


def run_case(case: dict[str, Any]) -> CaseOut:
    from harness.servers import dict_sim, maildir_sim
    out = CaseOut()
    backend = case['backend']
    tmp = None
    if backend == 'dict':
        sim = dict_sim()
    else:
        tmp = tempfile.mkdtemp(prefix='c13-')
        sim = maildir_sim(tmp)
    nt = False
    try:
        msgs = [_build(s, i + 1) for i, s in enumerate(case['msgs'])]
        late = min(case['late'], len(msgs) - 1)
        early = msgs[:len(msgs) - late]
        setup = Client(sim, prefix=b's')
        setup.login('alice')

        def append(cl: Client, m: dict[str, Any]) -> None:
            # the maildir backend keeps the internal date as a timestamp (the
            # written zone is not stored), so zones only on dict
            ioff = m['ioff'] if case['backend'] == 'dict' else '+0000'
            if ioff != '+0000' or m['zoned']:
                out.label('date-in-non-utc-zone')
            dt = '%02d-%s-%d %s %s' % (m['iday'][2], MON[m['iday'][1] - 1],
                                       m['iday'][0], m['itime'], ioff)
            fl = ' '.join(sorted(m['flags']))
            res = cl.command(b'APPEND INBOX (%s) "%s" {%d+}' % (
                fl.encode(), dt.encode(), len(m['raw'])), m['raw'])
            assert res.ok, res.raw
        for m in early[:len(early) // 2]:
            append(setup, m)
        # a first session claims \Recent for these, then leaves
        setup.command(b'CREATE Other')
        setup.select(b'INBOX', learn=False)
        setup.select(b'Other', learn=False)   # deselects without expunging
        for m in early[len(early) // 2:]:
            append(setup, m)
        c = Client(sim)
        c.login('alice')
        c.select(b'INBOX', learn=False)
        for m in msgs[len(msgs) - late:]:
            append(setup, m)
        c.command(b'NOOP')
        # session keywords
        for i, m in enumerate(msgs):
            m['kw'] = set()
            bits = case['keywords'] >> (i % 8)
            kws = [k for j, k in enumerate(['$kw1', '$kw2', 'other'])
                   if bits >> j & 1 and (i + j) % 2 == 0]
            if kws:
                r = c.command(b'STORE %d +FLAGS.SILENT (%s)' % (
                    i + 1, ' '.join(kws).encode()))
                if r.ok:
                    m['kw'] = set(kws)
        # the session's own view
        res = c.command(b'FETCH 1:* (UID FLAGS RFC822.SIZE)')
        view = []
        for r in res.untagged(b'FETCH'):
            m = msgs[r.num - 1]
            m['uid'] = r.data[b'UID']
            fl = {f.decode() for f in r.data[b'FLAGS']}
            m['recent'] = '\\Recent' in fl
            if {f for f in fl if f.startswith('\\')} - {'\\Recent'} != \
                    m['flags']:
                raise AssertionError(f'setup flags {fl} vs {m["flags"]}')
            seen_kw = {f for f in fl if not f.startswith('\\')}
            m['kw'] = seen_kw     # what this session is shown
            m['size'] = r.data[b'RFC822.SIZE']
            view.append(m)
        hidden_uid = None
        if case['hidden'] and len(view) >= 2:
            # another session expunges a message; the acting session only
            # issues non-UID commands, so the expunge stays hidden
            victim = view[len(view) // 2]
            o = Client(sim, prefix=b'o')
            o.login('alice')
            o.select(b'INBOX', learn=False)
            o.command(b'UID STORE %d +FLAGS.SILENT (\\Deleted)'
                      % victim['uid'])
            o.command(b'UID EXPUNGE %d' % victim['uid'])
            o.command(b'LOGOUT')
            hidden_uid = victim['uid']
            nt = True
            out.label('hidden-expunged-view')
        ctx = Ctx(view)
        compiled = [_compile(t, ctx) for t in case['query']]
        wire = ' '.join(w for w, _, _ in compiled)
        depth = max(d for _, _, d in compiled)
        if depth >= 2:
            nt = True
            out.label('depth>=2')
        for lb in ctx.labels:
            nt = True
            out.label(lb)

        def pred(p: int, m: dict[str, Any]) -> bool:
            return all(f(p, m) for _, f, _ in compiled)

        def search(text: str, uid: bool = False) -> list[int] | None:
            r = c.command((b'UID ' if uid else b'') + b'SEARCH '
                          + text.encode(),
                          nonuid_data_cmd=not uid)
            if not r.ok:
                return None
            rows = r.untagged(b'SEARCH')
            return sorted(rows[0].data) if rows else []

        got = search(wire)
        desc = f'SEARCH {wire} over {[(m["uid"], sorted(m["flags"]), m["recent"], m["size"], m["iday"], m["sday"]) for m in view]} ({backend})'
        if got is None:
            out.fail('search-refused', desc)
            return out
        want = [p for p, m in enumerate(view, 1) if pred(p, m)]

        def same(a: list[int], b: list[int], positions: bool) -> bool:
            if hidden_uid is None:
                return a == b
            hp = [p for p, m in enumerate(view, 1)
                  if m['uid'] == hidden_uid][0]
            h = hp if positions else hidden_uid
            return [x for x in a if x != h] == [x for x in b if x != h]
        if not same(got, want, True):
            leafs = re.findall(r'[A-Z]+', wire)
            out.fail('search-result-differs-from-evaluator:'
                     + (leafs[0] if len(set(leafs)) == 1 else 'compound'),
                     f'{desc}: returned {got}, evaluator {want}')
            return out
        # metamorphic relations (UID SEARCH delivers the hidden expunge, so
        # it goes last)
        variants: list[tuple[str, str]] = []
        if len(compiled) >= 2:
            variants.append(('and-commutes',
                             ' '.join(w for w, _, _ in reversed(compiled))))
        variants.append(('parenthesised', '(' + wire + ')'))
        first = case['query'][0]
        if first[0] == 'or':
            w1, _, _ = _compile(first[1], ctx, 1)
            w2, _, _ = _compile(first[2], ctx, 1)
            rest = ' '.join(w for w, _, _ in compiled[1:])
            variants.append(('or-commutes', f'OR {w2} {w1} {rest}'.strip()))
            if len(compiled) == 1:
                def neg(w: str) -> str:
                    return 'NOT ' + (w if w.startswith(('(', 'NOT')) is False
                                     and ' ' not in w else '(' + w + ')')
                if not w1.startswith('NOT') and not w2.startswith('NOT'):
                    a = search(f'NOT ({wire})')
                    b = search(f'{neg(w1)} {neg(w2)}')
                    if a is not None and b is not None and not same(
                            a, b, True):
                        out.fail('de-morgan-violated',
                                 f'NOT ({wire}) -> {a} but {neg(w1)} '
                                 f'{neg(w2)} -> {b}; {desc}')
        for name, text in variants:
            g2 = search(text)
            if g2 is not None and not same(g2, got, True):
                out.fail(f'metamorphic:{name}',
                         f'SEARCH {wire} -> {got} but SEARCH {text} -> {g2}; '
                         f'{desc}')
                return out
        if not wire.startswith('NOT'):
            comp = search(f'NOT ({wire})')
            if comp is not None:
                allp = list(range(1, len(view) + 1))
                if not same(sorted(set(got) | set(comp)), allp, True) or (
                        set(got) & set(comp)):
                    out.fail('metamorphic:complement-partition',
                             f'SEARCH {wire} -> {got}, NOT (..) -> {comp}, '
                             f'{len(view)} messages; {desc}')
                    return out
        ug = search(wire, uid=True)
        if ug is not None:
            want_u = sorted(view[p - 1]['uid'] for p in got)
            if not same(ug, want_u, False):
                out.fail('metamorphic:uid-search-differs',
                         f'SEARCH {wire} -> positions {got} = UIDs {want_u} '
                         f'but UID SEARCH -> {ug}; {desc}')
    finally:
        sim.close()
        if tmp:
            shutil.rmtree(tmp, ignore_errors=True)
    out.label(backend)
    if nt:
        out.nontrivial = case_hash(case)
    out.sample = {'backend': backend, 'messages': len(case['msgs']),
                  'query': wire if 'wire' in dir() else None}
    return out
