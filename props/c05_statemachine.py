"""C05 - the connection state machine follows RFC 3501 section 3.

An alphabet of command instances covering every built-in command (valid and
invalid arguments, existing and missing mailboxes, SELECT and EXAMINE, good /
bad / cancelled authentication, STARTTLS, IDLE+DONE, UID variants) is run as
sequences: exhaustively up to length 2 (quick) / 3 (thorough) and randomly up
to length 30. A four-state reference machine predicts, for every command,
whether it must be refused and what the state is afterwards; the real state
is revealed after every command by probes on the same connection.
"""
from __future__ import annotations

import base64
import itertools
import re
import shutil
import tempfile
from typing import Any

from hypothesis import strategies as st

from harness.runner import CaseOut, case_hash

ID = 'C05'
LEVEL = 'exploration'
RULE = ('cases = (backend, tls-required flag, sequence of indices into an '
        'alphabet of 54 command instances). Exhaustive over all sequences of '
        'length <= 2 (quick) / <= 3 (thorough) on dict without TLS; '
        'Hypothesis sequences up to length 30 incl. maildir and '
        'TLS-required configurations. Non-trivial = the sequence contains a '
        'command that is out of state when issued (by the reference '
        'machine); distinct by case hash.')
EXHAUSTIVE_NOTE = ('all sequences over the 54-instance alphabet up to length '
                   '2 (quick) or 3 (thorough) from the initial state, and all '
                   'sequences up to length 2 after each of the prefixes LOGIN, '
                   'LOGIN+SELECT INBOX, LOGIN+EXAMINE INBOX, LOGIN+CREATE '
                   'Tmp+SELECT Tmp (with and without Tmp then being deleted '
                   'by another session); dict backend, no TLS')
ASSUMPTIONS = ['bad_command_limit=None so that the state probes (which are '
               'answered BAD when out of state) do not trigger the forced '
               'disconnect; C06 keeps the default',
               'which mailbox is selected and whether read-only is read '
               'glass-box from ConnectionState._selected',
               'STARTTLS is exercised with a no-op start_tls()']
BUDGET = {'quick': (60, 16), 'thorough': (1500, 16)}

GOOD = base64.b64encode(b'\x00alice\x00pwalice')
BAD = base64.b64encode(b'\x00alice\x00wrong')
MSG = b'Subject: x\r\n\r\nbody\r\n'

# (name, class, wire) - wire is a list of byte strings sent one after the
# other (each one line); class in any | nonauth | auth | sel
ALPHABET: list[tuple[str, str, list[bytes]]] = [
    ('CAPABILITY', 'any', [b'CAPABILITY']),
    ('NOOP', 'any', [b'NOOP']),
    ('ID', 'any', [b'ID NIL']),
    ('LOGOUT', 'any', [b'LOGOUT']),
    ('BOGUS', 'bad', [b'BOGUS']),
    ('LOGIN-good', 'nonauth', [b'LOGIN alice pwalice']),
    ('LOGIN-bad', 'nonauth', [b'LOGIN alice wrong']),
    ('LOGIN-noargs', 'bad', [b'LOGIN']),
    ('AUTH-good', 'nonauth', [b'AUTHENTICATE PLAIN', GOOD]),
    ('AUTH-bad', 'nonauth', [b'AUTHENTICATE PLAIN', BAD]),
    ('AUTH-cancel', 'nonauth', [b'AUTHENTICATE PLAIN', b'*']),
    ('AUTH-garbage', 'nonauth', [b'AUTHENTICATE PLAIN', b'!!!']),
    ('AUTH-bogusmech', 'nonauth', [b'AUTHENTICATE BOGUS']),
    ('STARTTLS', 'nonauth', [b'STARTTLS']),
    ('SELECT-INBOX', 'auth', [b'SELECT INBOX']),
    ('SELECT-Other', 'auth', [b'SELECT Other']),
    ('SELECT-Missing', 'auth', [b'SELECT Missing']),
    ('EXAMINE-INBOX', 'auth', [b'EXAMINE INBOX']),
    ('EXAMINE-Missing', 'auth', [b'EXAMINE Missing']),
    ('SELECT-noargs', 'bad', [b'SELECT']),
    ('CREATE-Tmp', 'auth', [b'CREATE Tmp']),
    ('CREATE-INBOX', 'auth', [b'CREATE INBOX']),
    ('DELETE-Tmp', 'auth', [b'DELETE Tmp']),
    ('DELETE-INBOX', 'auth', [b'DELETE INBOX']),
    ('RENAME-Tmp', 'auth', [b'RENAME Tmp Tmp2']),
    ('SUBSCRIBE', 'auth', [b'SUBSCRIBE Tmp']),
    ('UNSUBSCRIBE', 'auth', [b'UNSUBSCRIBE Tmp']),
    ('LIST', 'auth', [b'LIST "" *']),
    ('LSUB', 'auth', [b'LSUB "" *']),
    ('STATUS-INBOX', 'auth', [b'STATUS INBOX (MESSAGES)']),
    ('STATUS-Missing', 'auth', [b'STATUS Missing (MESSAGES)']),
    ('APPEND-INBOX', 'auth', [b'APPEND INBOX {%d+}\r\n%s' % (len(MSG), MSG)]),
    ('APPEND-Missing', 'auth', [b'APPEND Missing {%d+}\r\n%s' % (len(MSG),
                                                                 MSG)]),
    ('CHECK', 'sel', [b'CHECK']),
    ('CLOSE', 'sel', [b'CLOSE']),
    ('EXPUNGE', 'sel', [b'EXPUNGE']),
    ('SEARCH', 'sel', [b'SEARCH ALL']),
    ('FETCH', 'sel', [b'FETCH 1 (FLAGS)']),
    ('FETCH-body', 'sel', [b'FETCH 1:* (BODY[])']),
    ('FETCH-badargs', 'bad', [b'FETCH 1']),
    ('STORE', 'sel', [b'STORE 1 +FLAGS (\\Flagged)']),
    ('COPY', 'sel', [b'COPY 1 Sink']),
    ('COPY-Missing', 'sel', [b'COPY 1 Missing']),
    ('MOVE', 'sel', [b'MOVE 1 Sink']),
    ('UID-FETCH', 'sel', [b'UID FETCH 1:* (FLAGS)']),
    ('UID-STORE', 'sel', [b'UID STORE 1:* -FLAGS.SILENT (\\Flagged)']),
    ('UID-SEARCH', 'sel', [b'UID SEARCH ALL']),
    ('UID-COPY', 'sel', [b'UID COPY 1:* Sink']),
    ('UID-MOVE', 'sel', [b'UID MOVE 999 Sink']),
    ('UID-EXPUNGE', 'sel', [b'UID EXPUNGE 1:*']),
    ('IDLE', 'sel', [b'IDLE', b'DONE']),
    ('IDLE-notdone', 'sel', [b'IDLE', b'WHAT']),
    ('SELECT-Tmp', 'auth', [b'SELECT Tmp']),
    # not a command of this connection: *another* session deletes Tmp
    ('ENV-DELETE-Tmp', 'env', [b'DELETE Tmp']),
]
N = len(ALPHABET)


def enumerate_cases(tier: str) -> Any:
    maxlen = 2 if tier == 'quick' else 3
    names = [a[0] for a in ALPHABET]
    login = names.index('LOGIN-good')
    prefixes = [[], [login], [login, names.index('SELECT-INBOX')],
                [login, names.index('EXAMINE-INBOX')],
                # a mailbox of its own selected, which somebody may delete
                [login, names.index('CREATE-Tmp'), names.index('SELECT-Tmp')],
                [login, names.index('CREATE-Tmp'), names.index('SELECT-Tmp'),
                 names.index('ENV-DELETE-Tmp')]]
    for prefix in prefixes:
        # the bare prefix space is the plain exhaustive one; the warm
        # prefixes put every sequence into the authenticated, selected and
        # examined states as well
        top = maxlen if not prefix else 2
        for n in range(1, top + 1):
            for seq in itertools.product(range(N), repeat=n):
                yield {'backend': 'dict', 'tls': False,
                       'seq': prefix + list(seq)}


def strategy(tier: str) -> Any:
    idx = st.integers(0, N - 1)
    # bias towards getting authenticated / selected early
    warm = st.sampled_from([[], [5], [8], [5, 14], [5, 17], [8, 15], [13, 5],
                            [5, 14, 34], [5, 17, 34], [5, 20, 52],
                            [5, 20, 52, 53]])
    return st.tuples(st.sampled_from(['dict', 'dict', 'dict', 'maildir']),
                     st.booleans(), warm,
                     st.lists(idx, min_size=1, max_size=30)).map(
        lambda t: {'backend': t[0], 'tls': t[1], 'seq': t[2] + t[3]})


class Model:
    def __init__(self, tls: bool) -> None:
        self.auth = False
        self.sel: tuple[str, bool] | None = None
        self.out = False
        self.tls_required = tls
        self.tls_done = False
        self.exists = {'INBOX', 'Other', 'Sink'}
        #: the selected mailbox has been deleted under this connection
        self.doomed = False

    def snapshot(self) -> tuple[Any, ...]:
        return (self.auth, self.sel, self.out)

    def step(self, name: str, cls: str) -> tuple[str, bool]:
        """Returns (expected outcome OK|REFUSED|ANY, out_of_state)."""
        if cls == 'env':
            if 'Tmp' in self.exists:
                self.exists.discard('Tmp')
                if self.sel and self.sel[0] == 'Tmp':
                    self.doomed = True
            return 'ANY', False
        if cls == 'bad':
            return 'REFUSED', False
        if cls == 'any':
            if name == 'LOGOUT':
                self.out = True
            return 'OK', False
        if cls == 'nonauth':
            if self.auth:
                return 'REFUSED', True
            can_plain = not self.tls_required or self.tls_done
            if name == 'STARTTLS':
                if self.tls_required and not self.tls_done:
                    self.tls_done = True
                    return 'OK', False
                return 'REFUSED', False
            if name in ('LOGIN-good', 'AUTH-good') and can_plain:
                self.auth = True
                return 'OK', False
            return 'REFUSED', False
        if cls == 'auth':
            if not self.auth:
                return 'REFUSED', True
            if name.startswith(('SELECT-', 'EXAMINE-')):
                target = name.split('-', 1)[1]
                self.sel = None
                self.doomed = False
                if target in self.exists:
                    self.sel = (target, name.startswith('EXAMINE'))
                    return 'OK', False
                return 'REFUSED', False
            if name == 'CREATE-Tmp':
                if 'Tmp' in self.exists:
                    return 'REFUSED', False
                self.exists.add('Tmp')
                return 'OK', False
            if name in ('CREATE-INBOX', 'DELETE-INBOX', 'STATUS-Missing',
                        'APPEND-Missing'):
                return 'REFUSED', False
            if name == 'DELETE-Tmp':
                if 'Tmp' not in self.exists:
                    return 'REFUSED', False
                self.exists.discard('Tmp')
                if self.sel and self.sel[0] == 'Tmp':
                    self.doomed = True
                return 'OK', False
            if name == 'RENAME-Tmp':
                if 'Tmp' not in self.exists or 'Tmp2' in self.exists:
                    return 'REFUSED', False
                self.exists.discard('Tmp')
                self.exists.add('Tmp2')
                if self.sel and self.sel[0] == 'Tmp':
                    self.doomed = True
                return 'OK', False
            if name in ('SUBSCRIBE', 'UNSUBSCRIBE'):
                return 'ANY', False
            return 'OK', False
        # selected-state commands
        if not self.auth or self.sel is None:
            return 'REFUSED', True
        ro = self.sel[1]
        if name == 'CLOSE':
            # always succeeds and deselects, also when the mailbox is gone
            self.sel = None
            self.doomed = False
            return 'OK', False
        if self.doomed:
            return 'ANY', False      # NO, or BYE and the end
        if name in ('CHECK', 'SEARCH', 'UID-SEARCH', 'IDLE'):
            return 'OK', False
        if name == 'IDLE-notdone':
            return 'REFUSED', False
        if name in ('EXPUNGE', 'UID-EXPUNGE', 'STORE', 'UID-STORE') and ro:
            return 'REFUSED', False
        if name in ('EXPUNGE', 'UID-EXPUNGE'):
            return 'OK', False
        return 'ANY', False


def _fingerprint(probe: Any, names: list[bytes]) -> Any:
    """Cheap data fingerprint through a second, authenticated connection."""
    out = []
    r = probe.cmd(b'p LIST "" *\r\n')
    out.append(sorted(re.findall(rb'\* LIST [^\r]*', r)))
    r = probe.cmd(b'p LSUB "" *\r\n')
    out.append(sorted(re.findall(rb'\* LSUB [^\r]*', r)))
    for nm in names:
        r = probe.cmd(b'p EXAMINE ' + nm + b'\r\n')
        if b'p OK' not in r:
            out.append((nm, None))
            continue
        ex = re.search(rb'\* (\d+) EXISTS', r)
        un = re.search(rb'UIDNEXT (\d+)', r)
        r2 = probe.cmd(b'p UID FETCH 1:* (FLAGS)\r\n')
        fl = sorted((m.group(2), m.group(1).replace(b'\\Recent', b'')
                     .replace(b' ', b''))
                    for m in re.finditer(
                        rb'FETCH \(FLAGS \(([^)]*)\) UID (\d+)\)', r2))
        out.append((nm, ex.group(1) if ex else None,
                    un.group(1) if un else None, fl))
    probe.cmd(b'p CLOSE\r\n')
    return out


def run_case(case: dict[str, Any]) -> CaseOut:
    from harness.servers import dict_sim, maildir_sim
    out = CaseOut()
    backend = case['backend']
    tls = bool(case.get('tls'))
    tmp = None
    kw: dict[str, Any] = {'bad_command_limit': None}
    if tls:
        kw['tls_enabled'] = True
    if backend == 'dict':
        sim = dict_sim(**kw)
    else:
        tmp = tempfile.mkdtemp(prefix='c05-')
        sim = maildir_sim(tmp, **kw)
    nontrivial = False
    try:
        # setup through a local-peer connection (may use PLAIN without TLS)
        setup = sim.connect(peer=('127.0.0.1', 999))
        setup.take()
        assert b's OK' in setup.cmd(b's LOGIN alice pwalice\r\n'), 'setup'
        setup.cmd(b's CREATE Other\r\n')
        setup.cmd(b's CREATE Sink\r\n')
        for mbx in (b'INBOX', b'Other'):
            for _ in range(2):
                setup.cmd(b's APPEND %s {%d+}\r\n%s\r\n' % (mbx, len(MSG),
                                                           MSG))
        probe = setup
        conn = sim.connect()
        conn.take()
        model = Model(tls)
        names = [b'INBOX', b'Other', b'Sink', b'Tmp', b'Tmp2']
        ids: dict[Any, str] = {}
        for nm in (b'INBOX', b'Other', b'Sink'):
            r = probe.cmd(b's STATUS ' + nm + b' (MAILBOXID)\r\n')
            m = re.search(rb'MAILBOXID \(([^)]+)\)', r)
            if m:
                ids[m.group(1)] = nm.decode()
        n = 0
        for idx in case['seq']:
            name, cls, wire = ALPHABET[idx % N]
            if model.out or conn.done:
                break
            if cls == 'env':
                if model.auth:
                    probe.cmd(b'p ' + wire[0] + b'\r\n')
                    model.step(name, cls)
                    if model.doomed:
                        nontrivial = True
                        out.label('selected-mailbox-deleted-by-another-'
                                  'session')
                continue
            before_model = model.snapshot()
            need_fp = True
            fp_before = _fingerprint(probe, names)
            n += 1
            tag = b't%d' % n
            got = conn.cmd(tag + b' ' + wire[0] + b'\r\n')
            for extra in wire[1:]:
                last = got[:-2].split(b'\r\n')[-1] if got.endswith(b'\r\n') \
                    else b''
                if last.startswith(b'+'):
                    got += conn.cmd(extra + b'\r\n')
            m = re.search(rb'(^|\r\n)' + re.escape(tag) + rb' (OK|NO|BAD)',
                          got)
            cond = m.group(2) if m else None
            if model.doomed and conn.done and b'* BYE' in got:
                # the selected mailbox was deleted by somebody else: the
                # server may end the connection with BYE at any command
                out.label('bye-after-selected-mailbox-was-deleted')
                break
            expect, oos = model.step(name, cls)
            if model.doomed and conn.done and b'* BYE' in got and \
                    cond == b'OK':
                # it deleted / renamed its own selected mailbox
                out.label('bye-after-selected-mailbox-was-deleted')
                break
            mid = re.search(rb'MAILBOXID \(([^)]+)\)', got)
            if mid and name.startswith(('SELECT-', 'EXAMINE-')) \
                    and cond == b'OK':
                ids[mid.group(1)] = name.split('-', 1)[1]
            if oos:
                nontrivial = True
                out.label('out-of-state:' + cls)
            desc = f'{name} after {[ALPHABET[i % N][0] for i in case["seq"][:n - 1]]}' \
                   f' (tls_required={tls}, {backend}) -> {got[-160:]!r}'
            if cond is None:
                out.fail('no-tagged-completion:' + name, desc)
                break
            refused = cond in (b'NO', b'BAD')
            if expect == 'OK' and refused:
                out.fail(f'refused-but-must-succeed:{name}', desc)
            elif expect == 'REFUSED' and not refused:
                out.fail(f'accepted-but-must-be-refused:{name}', desc)
            if name == 'LOGOUT':
                bye = got.find(b'* BYE')
                okp = got.find(tag + b' OK')
                if not (0 <= bye < okp) or not (conn.done or
                                                conn.writer.closed):
                    out.fail('logout-without-bye-ok-close', desc)
                break
            # reveal the real state
            st_ = conn.state
            r = conn.cmd(b'q1 STATUS INBOX (MESSAGES)\r\n')
            real_auth = b'q1 OK' in r
            r = conn.cmd(b'q2 SEARCH ALL\r\n')
            real_sel = b'q2 OK' in r
            sel_obj = getattr(st_, '_selected', None)
            real_which = None
            if sel_obj is not None:
                real_which = (ids.get(sel_obj.mailbox_id.value, '?'),
                              bool(sel_obj.readonly))
            if real_auth != model.auth:
                out.fail(f'auth-state-wrong-after:{name}',
                         f'{desc}: STATUS probe says authenticated='
                         f'{real_auth}, reference machine says {model.auth}')
            if conn.done and model.doomed:
                break                  # ended with BYE: allowed
            if model.doomed:
                pass      # between deletion and CLOSE: NO or BYE, not probed
            elif real_sel != (model.sel is not None):
                out.fail(f'selected-state-wrong-after:{name}',
                         f'{desc}: SEARCH probe says selected={real_sel}, '
                         f'reference machine says {model.sel}')
            elif model.sel is not None and real_which != model.sel:
                out.fail(f'wrong-mailbox-selected-after:{name}',
                         f'{desc}: server holds {real_which}, reference '
                         f'machine says {model.sel}')
            if out.failures:
                break
            if refused and need_fp:
                fp_after = _fingerprint(probe, names)
                if fp_after != fp_before:
                    out.fail(f'refused-command-changed-data:{name}',
                             f'{desc}: before {fp_before} after {fp_after}')
                if not name.startswith(('SELECT', 'EXAMINE')) and \
                        not model.doomed and (real_auth, real_sel) != (
                            before_model[0], before_model[1] is not None):
                    out.fail(f'refused-command-changed-state:{name}', desc)
    finally:
        sim.close()
        if tmp:
            shutil.rmtree(tmp, ignore_errors=True)
    out.label(backend, 'tls' if tls else 'notls', 'len=%d' % min(
        len(case['seq']), 9))
    if nontrivial:
        out.nontrivial = case_hash(case)
    out.sample = {'backend': backend, 'tls': tls,
                  'seq': [ALPHABET[i % N][0] for i in case['seq'][:12]]}
    return out
