"""C01 - sequence numbers: the client view never diverges from the server.

Generated multi-session programs (harness.multisession); the oracle is the
set of client-side invariants an RFC 3501 client relies on, plus a glass-box
comparison with ConnectionState._selected.messages and a ground-truth check
that the server interprets sequence numbers through the same mapping.
"""
from __future__ import annotations

from typing import Any

from hypothesis import strategies as st

from harness.multisession import MS, steps_strategy, norm
from harness.runner import CaseOut, case_hash

ID = 'C01'
LEVEL = 'exploration'
RULE = ('cases = (backend, initial flags, 1-3 sessions on INBOX/Other, '
        'program of <=25/60 steps over APPEND(split literal)/STORE/EXPUNGE/'
        'UID EXPUNGE/COPY/MOVE/FETCH/SEARCH/NOOP/CHECK/IDLE/DONE/tick with '
        'addresses decoded relative to the issuing session\'s own, possibly '
        'stale, view). Non-trivial = a session received EXPUNGE or EXISTS '
        'caused by another session\'s command (in a later command of its own '
        'or inside IDLE); distinct by case hash.')
ASSUMPTIONS = ['asyncio subsystem: a non-IDLE command runs to completion in '
               'one loop iteration, so interleavings are at command, literal '
               'continuation, IDLE and timer granularity',
               'ground truth is a fresh EXAMINE probe session']
BUDGET = {'quick': (300, 16), 'thorough': (2500, 16)}

OWN_CAUSE = {'expunge', 'uidexpunge', 'move', 'append', 'append_end',
             'append_begin'}


def strategy(tier: str) -> Any:
    max_steps = 25 if tier == 'quick' else 60
    return st.fixed_dictionaries({
        'backend': st.sampled_from(['dict', 'dict', 'maildir']),
        'init': st.lists(st.integers(0, 31), max_size=6),
        'nsess': st.sampled_from([1, 2, 2, 2, 3, 3]),
        'examine': st.lists(st.sampled_from([False, False, True]), min_size=4,
                            max_size=4),
        'other': st.sampled_from([[False, False, False]] * 4 + [
            [False, False, True], [False, True, False]]),
        'steps': steps_strategy(max_steps),
        'learn': st.sampled_from([True, True, True, False]),
    })


def _apply(mode: bytes, old: frozenset[bytes],
           flags: frozenset[bytes]) -> frozenset[bytes]:
    if mode == b'FLAGS':
        return flags
    if mode == b'+FLAGS':
        return old | flags
    return old - flags


def run_case(case: dict[str, Any]) -> CaseOut:
    out = CaseOut()
    nontrivial = False
    with MS(case) as ms:
        for st_ in case['steps']:
            k = st_[0] % len(ms.clients)
            c = ms.clients[k]
            op = st_[1]
            inbox_sess = ms.mailbox[k] == b'INBOX'
            view_before = list(c.shadow.view)
            fu_before = [x.shadow.foreign_updates for x in ms.clients]
            need_truth = op in ('store', 'fetch', 'search') and inbox_sess \
                and k not in ms.idling and k not in ms.midlit \
                and not c.conn.done
            before = ms.truth() if need_truth and op == 'store' else None
            info = ms.step(st_)
            res = info['res']
            op = info['op']
            # (a)/(b): shadow-client assertions, all sessions
            for j, cl in enumerate(ms.clients):
                for sig, msg in cl.shadow.errors:
                    out.fail(sig, f'session {j}: {msg}; step={st_} '
                             f'backend={case["backend"]}')
                cl.shadow.errors.clear()
                cl.shadow.check_sorted()
                # (c) glass box
                if j in ms.midlit:
                    continue
                sv = ms.server_view(j)
                if sv is None or cl.conn.done:
                    continue
                cv = cl.shadow.view
                if len(sv) != len(cv) or any(
                        u is not None and u != s for u, s in zip(cv, sv)):
                    out.fail('client-view-differs-from-server-view',
                             f'session {j}: client {cv} server {sv} after '
                             f'step {st_}')
            for j, cl in enumerate(ms.clients):
                if cl.shadow.foreign_updates != fu_before[j] and (
                        j != k or op not in OWN_CAUSE):
                    nontrivial = True
                    out.label('foreign-update-in-idle' if j != k
                              else 'foreign-update-in-command')
            if res is None or info['skipped']:
                continue
            sel = getattr(c.conn.state, '_selected', None)
            if sel is not None and sel.messages._pending_remove:
                out.label('deferred-expunge')
            # (d) the server interprets numbers through the same mapping
            if not need_truth or not res.ok:
                continue
            after = ms.truth()
            am = after['messages']
            if op == 'store' and before is not None:
                bm = before['messages']
                # a UID the session's view does not hold (not announced yet,
                # or never existed) is ignored by the server, as RFC 3501
                # allows; a UID at a position the client has not learned yet
                # may or may not be in the server-side view
                addressed = {u for u in info['uids'] if u is not None}
                known = {u for u in view_before if u is not None}
                unknown_target = None in info['uids']
                for u, m in am.items():
                    if u not in bm:
                        continue
                    old = bm[u]['flags'] - {b'\\recent'}
                    new = m['flags'] - {b'\\recent'}
                    if u in addressed:
                        if u not in known:
                            continue
                        want = _apply(info['mode'], old, info['flags'])
                        if new != want:
                            out.fail('store-wrong-result',
                                     f'STORE {info["mode"]!r} '
                                     f'{sorted(info["flags"])} on UID {u}: '
                                     f'had {sorted(old)}, now {sorted(new)}, '
                                     f'expected {sorted(want)}; step={st_}')
                    elif new != old and not unknown_target:
                        out.fail('store-hit-unaddressed-message',
                                 f'STORE addressed UIDs {sorted(addressed)} '
                                 f'(positions {info.get("pos")} of client '
                                 f'view {view_before}) but UID {u} changed '
                                 f'{sorted(old)} -> {sorted(new)}; '
                                 f'step={st_}')
            # FETCH FLAGS labels agree with ground truth for that position
            for num, u, r in c.shadow.fetch_log:
                fl = r.data.get(b'FLAGS')
                if fl is None or u is None or u not in am:
                    continue
                got = norm(fl) - {b'\\recent'}
                want = am[u]['flags'] - {b'\\recent'}
                if got != want:
                    out.fail('fetch-flags-mislabelled',
                             f'* {r.num} FETCH FLAGS {sorted(got)} but the '
                             f'message at that position (UID {u}) has '
                             f'{sorted(want)}; step={st_}')
            if op == 'search':
                for r in res.untagged(b'SEARCH'):
                    nums = r.data
                    key = info['key']
                    if info['uid']:
                        known = {u for u in view_before if u is not None}
                        if None not in view_before and \
                                not set(nums) <= known | set(am):
                            out.fail('uid-search-unknown-uid',
                                     f'UID SEARCH returned {nums}, view '
                                     f'{view_before}; step={st_}')
                        if isinstance(key, list) or isinstance(key, tuple):
                            u = key[1]
                            if u in am and nums != [u]:
                                out.fail('uid-search-wrong',
                                         f'UID SEARCH UID {u} -> {nums}')
                    else:
                        n = len(c.shadow.view)
                        if any(not 1 <= x <= n for x in nums):
                            out.fail('search-out-of-range',
                                     f'SEARCH returned {nums} with {n} '
                                     f'messages; step={st_}')
                        if isinstance(key, (list, tuple)):
                            u = key[1]
                            pos = view_before.index(u) + 1
                            if (u in am and nums != [pos]) or \
                                    (nums and nums != [pos]):
                                out.fail('search-wrong-position',
                                         f'SEARCH UID {u} -> {nums}, client '
                                         f'holds it at {pos}; step={st_}')
                        elif key == 'all' and None not in view_before:
                            must = {i + 1 for i, u in enumerate(view_before)
                                    if u in am}
                            if not must <= set(nums):
                                out.fail('search-all-misses',
                                         f'SEARCH ALL -> {nums}, positions '
                                         f'{sorted(must)} exist; step={st_}')
        ms.quiesce()
        for j, cl in enumerate(ms.clients):
            for sig, msg in cl.shadow.errors:
                out.fail(sig, f'session {j}: {msg} (at end)')
        out.labels.extend(set(ms.labels))
    out.label(case['backend'], 'sessions=%d' % case['nsess'])
    if nontrivial:
        out.nontrivial = case_hash(case)
    out.sample = {'backend': case['backend'], 'nsess': case['nsess'],
                  'init': case['init'],
                  'steps': [[s[0], s[1]] + s[2:6] for s in case['steps'][:12]]}
    return out
