"""C14 - no message is lost or half-applied when a command fails midway.

For a generated MOVE / COPY / multi-message APPEND / EXPUNGE command (and UID
variants) over 1-4 messages, faults are enumerated exhaustively:
  f1 cancellation of the connection task at every loop iteration between
     "command fed" and "response drained" (also while blocked on a closed
     write gate);
  f2 client disconnect (EOF, reset) at the same points;
  f3 an exception from the n-th backend storage call (MailboxData.append /
     copy / move / delete / update / get, rw-lock acquisitions) for every n;
  f4 (maildir) OSError(EIO) from the n-th mutating filesystem operation;
  f5 (maildir) process kill before the n-th filesystem operation (crash
     image + restart);
  f6 (maildir) another process takes the UID-list lock files at the n-th
     filesystem operation, the command waits for them (a real suspension
     point) and is cancelled / disconnected there.
Oracle, from dumps of source and destination after the fault: every message
that existed before is still in the source or the destination; after an
OK-completed MOVE in exactly one of them; a multi-message APPEND that did not
complete with OK left none of its messages; a command that ended NO/BAD left
both mailboxes unchanged; the server still serves.
"""
from __future__ import annotations

import os
import re
from typing import Any

from hypothesis import strategies as st

from harness import crash, fsmon
from harness.runner import CaseOut, case_hash

ID = 'C14'
LEVEL = 'fault_enumeration'
RULE = ('cases = (backend, command shape: kind, UID variant, number of '
        'messages, which are \\Deleted, set shape, second-session activity); '
        'for each case every fault position of every applicable fault kind '
        'is executed in a fresh world (exhaustive per command). Non-trivial '
        '= (command shape, fault kind, position) where the fault landed '
        'after the first and before the last storage / filesystem call of '
        'the command; distinct_nontrivial counts command shapes with at '
        'least one such execution, coverage.inside_faults counts the '
        'executions.')
ASSUMPTIONS = ['asyncio subsystem: cancellation and disconnect (f1, f2) '
               'cannot land inside a dict command there (no suspension '
               'point); the dict windows are reached through f3, the '
               'maildir ones through f3-f5. The evidence reports positions '
               'per fault kind.',
               'EXPUNGE may legitimately stop half-way (every removed '
               'message was \\Deleted)']
BUDGET = {'quick': (6, 16), 'thorough': (80, 16)}


class Injected(Exception):
    pass


def strategy(tier: str) -> Any:
    return st.fixed_dictionaries({
        'backend': st.sampled_from(['dict', 'maildir']),
        'kind': st.sampled_from(['move', 'move', 'copy', 'append', 'append',
                                 'expunge']),
        'uid': st.booleans(),
        'n': st.integers(1, 4),
        'deleted': st.integers(0, 15),
        'set': st.integers(0, 3),
        'other_session': st.sampled_from(['none', 'dest-selected',
                                          'src-selected']),
        'gate': st.booleans(),
        # the destination of MOVE / COPY: usually another mailbox, now and
        # then the selected mailbox itself
        'dest': st.sampled_from(['Other', 'Other', 'Other', 'INBOX']),
    })


class World:
    def __init__(self, case: dict[str, Any], fs_fault: int | None = None,
                 snapshots: bool = False) -> None:
        from harness.servers import dict_sim
        self.case = case
        self.h = None
        if case['backend'] == 'dict':
            self.sim = dict_sim()
        else:
            self.h = crash.History(snapshots=snapshots, fault_at=fs_fault)
            self.sim = self.h.sim
        s = self.sim.connect()
        s.take()
        assert b's OK' in s.cmd(b's LOGIN alice pwalice\r\n')
        s.cmd(b's CREATE Other\r\n')
        self.vids = []
        for i in range(case['n']):
            fl = b'\\Deleted' if case['deleted'] >> i & 1 else b'\\Seen'
            m = b'X-Vid: m%d\r\n\r\nbody\r\n' % i
            s.cmd(b's APPEND INBOX (%s) {%d+}\r\n%s\r\n' % (fl, len(m), m))
            self.vids.append(b'm%d' % i)
        m = b'X-Vid: o0\r\n\r\nbody\r\n'
        s.cmd(b's APPEND Other {%d+}\r\n%s\r\n' % (len(m), m))
        s.cmd(b's LOGOUT\r\n')
        self.other = None
        if case['other_session'] != 'none':
            o = self.sim.connect()
            o.take()
            o.cmd(b'o LOGIN alice pwalice\r\n')
            o.cmd(b'o SELECT %s\r\n' % (
                b'Other' if case['other_session'] == 'dest-selected'
                else b'INBOX'))
            self.other = o
        self.c = self.sim.connect()
        self.c.take()
        self.c.cmd(b'a LOGIN alice pwalice\r\n')
        self.c.cmd(b'a SELECT INBOX\r\n')
        self.before = self.dumps()

    def command(self) -> tuple[bytes, list[bytes]]:
        case = self.case
        n = case['n']
        first = 1 if case['backend'] == 'maildir' else 101
        sets = [b'1:*', b'1', b'%d' % n, b'1:%d' % max(1, n - 1)]
        usets = [b'1:*', b'%d' % first, b'%d' % (first + n - 1),
                 b'%d:%d' % (first, first + max(0, n - 2))]
        ss = usets[case['set']] if case['uid'] else sets[case['set']]
        pre = b'UID ' if case['uid'] else b''
        kind = case['kind']
        new: list[bytes] = []
        if kind in ('move', 'copy'):
            data = pre + kind.upper().encode() + b' ' + ss + b' ' \
                + case.get('dest', 'Other').encode()
        elif kind == 'expunge':
            data = b'UID EXPUNGE ' + usets[case['set']] if case['uid'] \
                else b'EXPUNGE'
        else:
            data = b'APPEND INBOX'
            for i in range(2 + case['set'] % 2):
                m = b'X-Vid: a%d\r\n\r\nbody\r\n' % i
                data += b' {%d+}\r\n%s' % (len(m), m)
                new.append(b'a%d' % i)
        return b'x1 ' + data + b'\r\n', new

    def dumps(self) -> Any:
        if self.h is not None:
            self.h.mon.enabled = False
        try:
            d = crash.dump_all(self.sim)
        except RuntimeError as exc:
            return exc        # the server no longer serves
        return {nm: bx['messages'] for nm, bx in d['mailboxes'].items()}

    def close(self) -> None:
        if self.h is not None:
            self.h.close()
        else:
            self.sim.close()


def _judge(before: Any, after: Any, resp: bytes, new: list[bytes],
           case: dict[str, Any], out: CaseOut, where: str) -> None:
    n0 = len(out.failures)
    _judge_inner(before, after, resp, new, case, out, where)
    if where.startswith('timeout while waiting'):
        # its own family of signatures: the command gave up on a lock that
        # another process held for longer than FileLock retries
        for f in out.failures[n0:]:
            f.signature += ':after-lock-timeout'


def _judge_inner(before: Any, after: Any, resp: bytes, new: list[bytes],
                 case: dict[str, Any], out: CaseOut, where: str) -> None:
    kind = case['kind']
    if isinstance(after, RuntimeError):
        out.fail(f'server-stops-serving-after-fault:{kind}:'
                 f'{case["backend"]}', f'{where}: {after}')
        return

    def vids(d: Any, box: bytes) -> list[bytes]:
        return sorted(v[0] for v in d.get(box, {}).values())
    b_in, b_ot = vids(before, b'INBOX'), vids(before, b'Other')
    a_in, a_ot = vids(after, b'INBOX'), vids(after, b'Other')
    m = re.search(rb'(^|\r\n)x1 (OK|NO|BAD)', resp)
    cond = m.group(2) if m else None
    desc = f'{where}: before INBOX={b_in} Other={b_ot}; after INBOX={a_in} ' \
           f'Other={a_ot}; completion={cond!r}'
    deleted = {v[0] for v in before[b'INBOX'].values()
               if b'\\deleted' in v[1]}
    for v in b_in + b_ot:
        if v not in a_in + a_ot:
            if kind == 'expunge' and v in deleted:
                continue
            out.fail(f'message-lost:{kind}:{case["backend"]}', desc)
            return
    if kind == 'move' and cond == b'OK':
        for v in set(b_in) & set(a_in) & set(a_ot):
            out.fail(f'moved-message-in-both-after-ok:{case["backend"]}',
                     desc)
            return
    if kind == 'append' and cond != b'OK':
        left = [v for v in new if v in a_in]
        client_gone = where.split(' ')[0] in ('cancel', 'eof', 'reset')
        if left and client_gone and len(left) == len(new):
            # the command ran to completion, only its OK could not be
            # delivered to a client that had already gone
            out.label('completed-but-unacknowledged')
        elif left:
            kill = '-after-kill' if where.startswith('kill') else ''
            out.fail(f'multiappend-half-applied{kill}:{case["backend"]}',
                     f'{desc}; messages {left} of the failed APPEND are in '
                     f'the mailbox')
            return
    if cond in (b'NO', b'BAD') and (a_in, a_ot) != (b_in, b_ot):
        out.fail(f'refused-command-changed-mailbox:{kind}:'
                 f'{case["backend"]}', desc)
        return
    dup = [v for v in set(a_in) if a_in.count(v) > 1] + \
        [v for v in set(a_ot) if a_ot.count(v) > 1 and kind != 'copy']
    if dup and kind != 'copy':
        out.fail(f'message-duplicated:{kind}:{case["backend"]}', desc)


_STORAGE = ['append', 'copy', 'move', 'delete', 'update', 'get']


def _patch_storage(backend: str, counter: dict[str, Any]) -> Any:
    """wrap MailboxData storage calls and rw-lock acquisition"""
    import pymap.concurrent as pc
    if backend == 'dict':
        from pymap.backend.dict.mailbox import MailboxData
    else:
        from pymap.backend.maildir.mailbox import MailboxData
    saved = []

    def wrap(owner: Any, name: str) -> None:
        real = getattr(owner, name)
        saved.append((owner, name, real))

        def hooked(*a: Any, **kw: Any) -> Any:
            if counter['armed']:
                counter['n'] += 1
                counter['log'].append(name)
                if counter['n'] == counter['fail_at']:
                    raise Injected(f'{name} call {counter["n"]}')
            return real(*a, **kw)
        setattr(owner, name, hooked)
    for name in _STORAGE:
        wrap(MailboxData, name)
    wrap(pc._AsyncioReadWriteLock, 'write_lock')
    wrap(pc._AsyncioReadWriteLock, 'read_lock')

    def restore() -> None:
        for owner, name, real in saved:
            setattr(owner, name, real)
    return restore


def run_case(case: dict[str, Any]) -> CaseOut:
    out = CaseOut()
    backend = case['backend']
    inside = 0
    pos_count: dict[str, int] = {}

    from harness.runner import load_known
    listed = load_known(ID)

    def stop() -> bool:
        # keep exploring behind the listed findings, stop at anything else
        return any(f.signature not in listed for f in out.failures)

    def fresh(**kw: Any) -> World:
        return World(case, **kw)

    # ---- dry run: how many loop iterations / storage calls / fs ops -------
    counter: dict[str, Any] = {'armed': False, 'n': 0, 'fail_at': -1,
                               'log': []}
    restore = _patch_storage(backend, counter)
    try:
        w = fresh()
        data, new = w.command()
        if w.h is not None:
            w.h.mon.enabled = True
            m0 = w.h.mon.faultable
            mm0 = w.h.mon.mutations
        counter['armed'] = True
        w.c.feed(data)
        iters = 0
        while True:
            w.sim.step()
            iters += 1
            if w.sim.idle or iters > 200:
                break
        counter['armed'] = False
        n_calls = counter['n']
        n_fs = (w.h.mon.faultable - m0) if w.h is not None else 0
        n_fs_all = (w.h.mon.mutations - mm0) if w.h is not None else 0
        resp = w.c.take()
        _judge(w.before, w.dumps(), resp, new, case, out, 'no fault')
        w.close()
        if out.failures:
            return out
        pos_count = {'f1': iters + 1, 'f2': 2 * (iters + 1), 'f3': n_calls,
                     'f4': n_fs, 'f5': n_fs}

        # ---- f1 / f2: cancel, EOF, reset at every iteration ---------------
        for kind in ('cancel', 'eof', 'reset'):
            for j in range(iters + 1):
                if stop():
                    break
                w = fresh()
                try:
                    if case['gate']:
                        w.c.writer.gate.clear()
                    w.c.feed(data)
                    w.sim.step(j)
                    if kind == 'cancel':
                        w.c.task.cancel()
                    elif kind == 'eof':
                        w.c.eof()
                    else:
                        w.c.writer.reset = True
                        w.c.eof()
                    w.c.writer.gate.set()
                    w.sim.settle(advance=2.0)
                    resp = w.c.take()
                    _judge(w.before, w.dumps(), resp, new, case, out,
                           f'{kind} at loop iteration {j}')
                finally:
                    w.close()
        # ---- f3: exception from the n-th storage call ---------------------
        for nth in range(1, n_calls + 1):
            if stop():
                break
            w = fresh()
            try:
                counter.update(n=0, fail_at=nth, log=[], armed=True)
                resp = w.c.cmd(data)
                counter['armed'] = False
                if 1 < nth < n_calls:
                    inside += 1
                _judge(w.before, w.dumps(), resp, new, case, out,
                       f'exception from storage call {nth}/{n_calls} '
                       f'({counter["log"][-1] if counter["log"] else "?"})')
            finally:
                counter['armed'] = False
                w.close()
        counter['fail_at'] = -1
        # ---- f4: OSError from the n-th filesystem operation ---------------
        if backend == 'maildir':
            for nth in range(1, n_fs + 1):
                if stop():
                    break
                w = fresh()
                try:
                    assert w.h is not None
                    w.h.mon.fault_at = w.h.mon.faultable + nth
                    w.h.mon.enabled = True
                    resp = w.c.cmd(data)
                    w.h.mon.enabled = False
                    w.h.mon.fault_at = None
                    if 1 < nth < n_fs:
                        inside += 1
                    _judge(w.before, w.dumps(), resp, new, case, out,
                           f'OSError from filesystem operation {nth}/{n_fs}')
                finally:
                    w.close()
            # ---- f6: another process holds the UID-list lock from the n-th
            #      filesystem operation on; the command waits for it (a real
            #      suspension point) and the connection is cancelled / dropped
            #      there; then the other process releases the lock ---------
            for nth in range(1, n_fs_all + 1):
                if stop():
                    break
                for how in ('cancel', 'eof', 'timeout'):
                    if how == 'timeout' and nth % 3 != 2:
                        continue     # every third position is enough
                    w = fresh()
                    try:
                        assert w.h is not None
                        base = w.h.base
                        locks = [os.path.join(base, 'alice',
                                              'dovecot-uidlist.lock'),
                                 os.path.join(base, 'alice', '.Other',
                                              'dovecot-uidlist.lock')]
                        held: list[str] = []

                        def grab(n: int, op: str, path: str,
                                 _start: int = w.h.mon.mutations,
                                 _nth: int = nth) -> None:
                            if n - _start == _nth and not held:
                                for lk in locks:
                                    if not os.path.exists(lk):
                                        fsmon.real_open(lk, 'x').close()
                                        held.append(lk)
                        w.h.mon.on_mutation = grab
                        w.h.mon.enabled = True
                        w.c.feed(data)
                        w.sim.settle(advance=0.0)
                        blocked = not w.c.writer.buf and bool(held)
                        if blocked:
                            if how == 'cancel':
                                w.c.task.cancel()
                            elif how == 'eof':
                                w.c.eof()
                                w.c.task.cancel()
                            else:
                                # the other process keeps the lock until the
                                # command gives up (NO [TIMEOUT])
                                w.sim.settle(advance=40.0)
                        for lk in held:
                            if os.path.exists(lk):
                                os.unlink(lk)
                        w.sim.settle(advance=12.0)
                        w.h.mon.enabled = False
                        w.h.mon.on_mutation = None
                        resp = w.c.take()
                        if blocked:
                            inside += 1
                            pos_count['f6'] = pos_count.get('f6', 0) + 1
                            _judge(w.before, w.dumps(), resp, new, case, out,
                                   f'{how} while waiting for a UID-list lock '
                                   f'taken by another process at filesystem '
                                   f'operation {nth}/{n_fs_all}')
                    finally:
                        w.close()
            # ---- f5: kill before the n-th filesystem operation ------------
            if not stop():
                w = fresh(snapshots=True)
                try:
                    assert w.h is not None
                    w.h.run(w.c, 0, data)
                    for s in w.h.snaps:
                        r = crash.restart_dump(s['dir'], '++',
                                               append_probe=False)
                        after = {nm: bx['messages']
                                 for nm, bx in r['mailboxes'].items()}
                        if 1 < s['k']:
                            inside += 1
                        _judge(w.before, after, b'', new, case, out,
                               f'kill before filesystem operation {s["k"]} '
                               f'({s["op"]} {s["path"]}) + restart')
                        if stop():
                            break
                except RuntimeError as exc:
                    out.fail('restart-cannot-serve:' + case['kind'], str(exc))
                finally:
                    w.close()
    finally:
        restore()
    out.label(backend, case['kind'])
    for k, v in pos_count.items():
        out.counters['positions_' + k] = v
    out.counters['inside_faults'] = inside
    if inside:
        out.nontrivial = case_hash(case)
    out.sample = dict(case, positions=pos_count)
    return out
