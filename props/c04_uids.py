"""C04 - UIDs are strictly increasing, never reused, and truthfully reported.

Stateful histories over mailboxes INBOX / A / B with 1-3 sessions: APPEND
(single and multi), COPY / MOVE (sequence and UID sets), flag-and-EXPUNGE
biased towards the highest UID, RENAME (incl. INBOX), DELETE + CREATE of the
same name, SELECT / STATUS, and - maildir - a server restart in the middle of
the history. dict and maildir.

Oracle (invariant over the whole history), per UIDVALIDITY: every UID in
APPENDUID / COPYUID is above every UID reported there before; every reported
UIDNEXT is above every existing UID and not above the next UID actually
assigned; the UIDs reported are found by UID FETCH and carry the expected
X-Vid, COPYUID pairs source to destination in order; the map
(UIDVALIDITY, UID) -> X-Vid never changes, across rename and restart too.
"""
from __future__ import annotations

import re
import shutil
import tempfile
from typing import Any

from hypothesis import strategies as st

from harness.runner import CaseOut, case_hash

ID = 'C04'
LEVEL = 'exploration'
RULE = ('cases = (backend, history of <= 30 steps (session, op, raw ints)). '
        'Non-trivial = the history expunges the highest UID of a mailbox and '
        'then adds a message there, or two different sessions add messages '
        'to the same mailbox, or it contains a rename / move, or (maildir) '
        'a restart or a delivery dropped straight into new/; distinct by '
        'case hash.')
ASSUMPTIONS = ['a UIDVALIDITY collision (two mailboxes created in the same '
               'second with equal random parts) is not steered and stays '
               'unexplored',
               'crash points between filesystem operations are enumerated by '
               'C15, which applies the same (UIDVALIDITY, UID) -> message '
               'invariant to every crash image; here the restart is a clean '
               'stop']
BUDGET = {'quick': (300, 16), 'thorough': (6000, 16)}

OPS = ['append', 'append', 'append', 'multiappend', 'copy', 'uidcopy', 'move',
       'uidmove', 'expunge-highest', 'expunge-highest', 'expunge-some',
       'rename', 'recreate', 'select', 'status', 'restart', 'deliver',
       'deliver', 'check', 'check']
BOXES = [b'INBOX', b'A', b'B']


def strategy(tier: str) -> Any:
    r = st.integers(0, 30)
    step = st.tuples(st.integers(0, 2), st.sampled_from(OPS), r, r, r).map(
        list)
    return st.fixed_dictionaries({
        'backend': st.sampled_from(['dict', 'dict', 'maildir']),
        'steps': st.lists(step, min_size=2, max_size=30),
    })


def _expand(s: bytes) -> list[int]:
    out: list[int] = []
    for part in s.split(b','):
        if b':' in part:
            a, b = part.split(b':')
            out.extend(range(int(a), int(b) + 1))
        else:
            out.append(int(part))
    return out


class World:
    def __init__(self, backend: str) -> None:
        from harness.servers import dict_sim, maildir_sim
        self.backend = backend
        self.tmp = None
        if backend == 'dict':
            self.sim = dict_sim()
        else:
            self.tmp = tempfile.mkdtemp(prefix='c04-')
            self.sim = maildir_sim(self.tmp)
        self.conns: dict[int, Any] = {}
        self.sel: dict[int, bytes | None] = {}
        self.n = 0

    def conn(self, k: int) -> Any:
        c = self.conns.get(k)
        if c is None or c.done:
            c = self.sim.connect()
            c.take()
            assert b'l OK' in c.cmd(b'l LOGIN alice pwalice\r\n')
            self.conns[k] = c
            self.sel[k] = None
        return c

    def cmd(self, k: int, data: bytes) -> tuple[bytes, bool]:
        self.n += 1
        tag = b't%d' % self.n
        got = self.conn(k).cmd(tag + b' ' + data + b'\r\n')
        return got, bool(re.search(rb'(^|\r\n)' + tag + rb' OK', got))

    def restart(self) -> None:
        from harness.servers import maildir_sim
        assert self.tmp is not None
        self.sim.close()
        self.sim = maildir_sim(self.tmp, provision=False)
        self.conns.clear()
        self.sel.clear()

    def close(self) -> None:
        self.sim.close()
        if self.tmp:
            shutil.rmtree(self.tmp, ignore_errors=True)


def run_case(case: dict[str, Any]) -> CaseOut:
    out = CaseOut()
    backend = case['backend']
    w = World(backend)
    nt = False
    try:
        w.cmd(9, b'CREATE A')
        w.cmd(9, b'CREATE B')
        ever: dict[tuple[int, int], bytes] = {}        # (uv, uid) -> vid
        top: dict[int, int] = {}                        # uv -> max reported
        pending_next: dict[int, int] = {}               # uv -> UIDNEXT seen
        exists: dict[bytes, bool] = {b: True for b in BOXES}
        expunged_top: set[int] = set()                  # uvs
        adders: dict[int, set[int]] = {}                # uv -> sessions
        vid = [0]

        def fail(sig: str, msg: str) -> None:
            out.fail(sig + ':' + backend, msg)

        def uv_of(k: int, box: bytes) -> int | None:
            got, ok = w.cmd(k, b'STATUS ' + box + b' (UIDVALIDITY UIDNEXT '
                            b'MESSAGES)')
            m = re.search(rb'UIDVALIDITY (\d+)', got)
            return int(m.group(1)) if ok and m else None

        def note_uidnext(uv: int, uidnext: int, box: bytes,
                         where: str) -> None:
            if uidnext <= top.get(uv, 0):
                fail('uidnext-not-above-existing-uid',
                     f'{where}: {box!r} reports UIDNEXT {uidnext} but UID '
                     f'{top[uv]} has been assigned (UIDVALIDITY {uv})')
            pending_next[uv] = max(pending_next.get(uv, 0), uidnext)

        def assigned(uv: int, uids: list[int], vids: list[bytes], k: int,
                     box: bytes, where: str) -> None:
            nonlocal nt
            for u, v in zip(uids, vids):
                if u <= top.get(uv, 0):
                    fail('uid-not-above-earlier-uids',
                         f'{where}: {box!r} assigned UID {u}, but UID '
                         f'{top[uv]} had been reported before under '
                         f'UIDVALIDITY {uv}')
                if uv in pending_next and u < pending_next[uv]:
                    fail('assigned-uid-below-reported-uidnext',
                         f'{where}: {box!r} assigned UID {u} after '
                         f'reporting UIDNEXT {pending_next[uv]}')
                was = ever.get((uv, u))
                if was is not None and was != v:
                    fail('uid-reused-for-another-message',
                         f'{where}: (UIDVALIDITY {uv}, UID {u}) was {was!r}, '
                         f'now assigned to {v!r}')
                ever[(uv, u)] = v
                top[uv] = max(top.get(uv, 0), u)
            pending_next.pop(uv, None)
            if uv in expunged_top:
                nt = True
                out.label('expunge-highest-then-add')
            adders.setdefault(uv, set()).add(k)
            if len(adders[uv]) > 1:
                nt = True
                out.label('two-sessions-add-to-one-mailbox')

        def verify(box: bytes, where: str) -> dict[int, bytes] | None:
            """probe: UID FETCH everything, check against ever"""
            got, ok = w.cmd(8, b'EXAMINE ' + box)
            if not ok:
                return None
            m = re.search(rb'UIDVALIDITY (\d+)', got)
            un = re.search(rb'UIDNEXT (\d+)', got)
            uv = int(m.group(1)) if m else 0
            got2, ok2 = w.cmd(8, b'UID FETCH 1:* (UID BODY.PEEK['
                              b'HEADER.FIELDS (X-Vid)])')
            res: dict[int, bytes] = {}
            for mm in re.finditer(rb'FETCH \(UID (\d+) BODY\[[^\]]*\] '
                                  rb'\{\d+\}\r\nX-Vid: (\S+)', got2):
                u, v = int(mm.group(1)), mm.group(2)
                res[u] = v
                was = ever.get((uv, u))
                if was is not None and was != v:
                    fail('uid-denotes-another-message',
                         f'{where}: {box!r} (UIDVALIDITY {uv}) UID {u} is '
                         f'{v!r}, was reported as {was!r}')
                ever[(uv, u)] = v
                top[uv] = max(top.get(uv, 0), u)
            if un:
                note_uidnext(uv, int(un.group(1)), box, where)
            w.cmd(8, b'CLOSE')
            return res

        for idx, (k, op, a, b, c_) in enumerate(case['steps']):
            if out.failures:
                break
            where = f'step {idx} {op} (session {k})'
            live = [bx for bx in BOXES if exists[bx]]
            box = live[a % len(live)]
            if op in ('append', 'multiappend'):
                n = 1 if op == 'append' else 2 + b % 2
                msgs = []
                for _ in range(n):
                    vid[0] += 1
                    msgs.append(b'X-Vid: v%d\r\n\r\nbody\r\n' % vid[0])
                data = b'APPEND ' + box
                for m in msgs:
                    data += b' {%d+}\r\n%s' % (len(m), m)
                got, ok = w.cmd(k, data)
                if not ok:
                    continue
                m = re.search(rb'APPENDUID (\d+) ([\d:,]+)', got)
                if not m:
                    fail('appenduid-missing', f'{where}: {got[-100:]!r}')
                    break
                uids = _expand(m.group(2))
                if len(uids) != n:
                    fail('appenduid-wrong-count',
                         f'{where}: {n} messages, APPENDUID {m.group(2)!r}')
                    break
                vids = [b'v%d' % (vid[0] - n + 1 + i) for i in range(n)]
                assigned(int(m.group(1)), uids, vids, k, box, where)
                found = verify(box, where)
                if found is not None:
                    for u, v in zip(uids, vids):
                        if found.get(u) != v:
                            fail('appenduid-not-found-by-uid-fetch',
                                 f'{where}: APPENDUID said UID {u} for '
                                 f'{v!r}; UID FETCH finds {found.get(u)!r}')
            elif op in ('copy', 'uidcopy', 'move', 'uidmove'):
                others = [bx for bx in live if bx != box]
                if not others:
                    continue
                dest = others[b % len(others)]
                if w.sel.get(k) != box:
                    got, ok = w.cmd(k, b'SELECT ' + box)
                    if not ok:
                        continue
                    w.sel[k] = box
                src = verify(box, where) or {}
                if not src:
                    continue
                suids = sorted(src)
                pick = suids[c_ % len(suids):][:1 + b % 3]
                word = (b'MOVE' if 'move' in op else b'COPY')
                # sync first, so that the session's view holds what we pick
                w.cmd(k, b'NOOP')
                # how the set is written: ascending, descending, rotated,
                # or with its first element repeated at the end - the
                # COPYUID pairing must hold however the client ordered it
                shape = (c_ // 7) % 4
                order = list(pick)
                if shape == 1:
                    order.reverse()
                elif shape == 2:
                    order = order[-1:] + order[:-1]
                elif shape == 3:
                    order = order + order[:1]
                if shape and len(pick) > 1:
                    out.label('copy-set-not-ascending')
                if op.startswith('uid'):
                    data = b'UID ' + word + b' ' + b','.join(
                        b'%d' % u for u in order) + b' ' + dest
                else:
                    pos = [suids.index(u) + 1 for u in order]
                    data = word + b' ' + b','.join(b'%d' % p for p in pos) \
                        + b' ' + dest
                got, ok = w.cmd(k, data)
                if not ok:
                    continue
                if 'move' in op:
                    nt = True
                    out.label('move')
                m = re.search(rb'COPYUID (\d+) ([\d:,]+) ([\d:,]+)', got)
                if not m:
                    fail('copyuid-missing', f'{where}: {got[-120:]!r}')
                    break
                s_uids, d_uids = _expand(m.group(2)), _expand(m.group(3))
                if sorted(s_uids) != sorted(pick) or \
                        len(d_uids) != len(s_uids):
                    fail('copyuid-wrong-source-set',
                         f'{where}: asked for {pick}, COPYUID '
                         f'{m.group(2)!r} -> {m.group(3)!r}')
                    break
                vids = [src[u] for u in s_uids]
                assigned(int(m.group(1)), d_uids, vids, k, dest, where)
                found = verify(dest, where)
                if found is not None:
                    for su, du in zip(s_uids, d_uids):
                        if found.get(du) != src[su]:
                            fail('copyuid-pairing-wrong',
                                 f'{where}: COPYUID pairs source UID {su} '
                                 f'({src[su]!r}) with destination UID {du}, '
                                 f'which is {found.get(du)!r}')
                            break
            elif op in ('expunge-highest', 'expunge-some'):
                if w.sel.get(k) != box:
                    got, ok = w.cmd(k, b'SELECT ' + box)
                    if not ok:
                        continue
                    w.sel[k] = box
                cur = verify(box, where) or {}
                if not cur:
                    continue
                uids = sorted(cur)
                victims = uids[-1:] if op == 'expunge-highest' else \
                    uids[b % len(uids):][:2]
                w.cmd(k, b'UID STORE ' + b','.join(b'%d' % u for u in victims)
                      + b' +FLAGS.SILENT (\\Deleted)')
                got, ok = w.cmd(k, b'EXPUNGE')
                uvb = uv_of(k, box)
                if ok and uvb is not None and uids[-1] in victims:
                    expunged_top.add(uvb)
            elif op == 'rename':
                others = [bx for bx in BOXES if not exists[bx]
                          and bx != b'INBOX']
                target = others[0] if others else None
                if target is None or (box == b'INBOX' and backend ==
                                      'maildir'):
                    continue
                before = verify(box, where)
                uvb = uv_of(k, box)
                got, ok = w.cmd(k, b'RENAME ' + box + b' ' + target)
                if not ok:
                    continue
                nt = True
                out.label('rename')
                for kk in list(w.sel):
                    if w.sel[kk] == box:
                        w.sel[kk] = None
                exists[target] = True
                if box != b'INBOX':
                    exists[box] = False
                after = verify(target, where)
                uva = uv_of(k, target)
                if before is not None and after is not None and \
                        (uva != uvb or after != before):
                    fail('rename-changed-uids-or-uidvalidity',
                         f'{where}: {box!r} (UIDVALIDITY {uvb}, {before}) '
                         f'-> {target!r} (UIDVALIDITY {uva}, {after})')
            elif op == 'recreate':
                if box == b'INBOX':
                    continue
                uvb = uv_of(k, box)
                got, ok = w.cmd(k, b'DELETE ' + box)
                if not ok:
                    continue
                for kk in list(w.sel):
                    if w.sel[kk] == box:
                        w.conns[kk].cmd(b'x LOGOUT\r\n')
                got, ok = w.cmd(k, b'CREATE ' + box)
                if not ok:
                    exists[box] = False
                    continue
                out.label('delete-and-create-same-name')
                verify(box, where)
            elif op == 'select':
                got, ok = w.cmd(k, b'SELECT ' + box)
                if ok:
                    w.sel[k] = box
                    m = re.search(rb'UIDVALIDITY (\d+)', got)
                    un = re.search(rb'UIDNEXT (\d+)', got)
                    if m and un:
                        note_uidnext(int(m.group(1)), int(un.group(1)), box,
                                     where)
            elif op == 'check':
                # housekeeping (CHECK) on the selected mailbox
                if w.sel.get(k) != box:
                    got, ok = w.cmd(k, b'SELECT ' + box)
                    if not ok:
                        continue
                    w.sel[k] = box
                w.cmd(k, b'CHECK')
                out.label('check')
            elif op == 'status':
                got, ok = w.cmd(k, b'STATUS ' + box + b' (UIDNEXT '
                                b'UIDVALIDITY)')
                m = re.search(rb'UIDVALIDITY (\d+)', got)
                un = re.search(rb'UIDNEXT (\d+)', got)
                if ok and m and un:
                    note_uidnext(int(m.group(1)), int(un.group(1)), box,
                                 where)
            elif op == 'deliver':
                # a delivery agent drops a file straight into new/ (maildir)
                if backend != 'maildir':
                    continue
                import os
                root = os.path.join(w.tmp, 'alice')
                mdir = root if box == b'INBOX' else os.path.join(
                    root, '.' + box.decode())
                if not os.path.isdir(os.path.join(mdir, 'new')):
                    continue
                vid[0] += 1
                v = b'v%d' % vid[0]
                with open(os.path.join(mdir, 'new', '17000%05d.M1P1Q%d.host'
                                       % (vid[0], vid[0])), 'wb') as f:
                    f.write(b'X-Vid: ' + v + b'\r\n\r\ndelivered\r\n')
                nt = True
                out.label('delivery')
                # whoever looks next adopts it; everything it then reports
                # must obey the invariant
                found = verify(box, where)
                if found is not None and v not in found.values():
                    fail('delivered-message-not-served',
                         f'{where}: {v!r} dropped into new/ of {box!r} is not '
                         f'served; mailbox has {found}')
            elif op == 'restart':
                if backend != 'maildir':
                    continue
                w.restart()
                nt = True
                out.label('restart')
                for bx in BOXES:
                    if exists[bx]:
                        verify(bx, where + ' after restart')
        if not out.failures:
            for bx in BOXES:
                if exists[bx]:
                    verify(bx, 'end of history')
    finally:
        w.close()
    out.label(backend)
    if nt:
        out.nontrivial = case_hash(case)
    out.sample = {'backend': backend,
                  'steps': [s[:3] for s in case['steps'][:12]]}
    return out
