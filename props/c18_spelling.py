"""C18 - how an argument is spelled does not change what it means.

(a) sibling spellings (atom / quoted / {n} / {n+}, letter case of command and
    keyword atoms): parsed command objects equal field by field; at wire level
    two identical fresh servers answer sibling spellings identically.
(b) round trips: parse generated wire text + suffix, serialise, parse again ->
    equal value, and exactly the suffix is left over both times.
(c) every Unicode mailbox name is reported by LIST and STATUS in a modified
    UTF-7 spelling that decodes (independent codec) to the same name.
"""
from __future__ import annotations

import re
from typing import Any

from hypothesis import strategies as st

from harness.models import mutf7_encode, mutf7_decode, spellings
from harness.pparse import parse_wire, project, Incomplete
from harness.runner import CaseOut, case_hash

ID = 'C18'
LEVEL = 'exploration'
RULE = ('cases are one of: sibling (command template, argument values, '
        'letter-case mask; all legal spellings of each argument must parse to '
        'equal command objects), wire (sibling spellings against two fresh '
        'dict servers must give equal masked responses and equal LIST/STATUS '
        'dumps), roundtrip (type, generated wire text, suffix), name (Unicode '
        'mailbox name created via literal, read back from LIST and STATUS). '
        'Non-trivial = some argument value needs quoting or a literal (is not '
        'a legal atom), or the name has non-ASCII/control characters or "&"; '
        'distinct by case hash.')
ASSUMPTIONS = ['extra spacing is not generated (RFC 3501 allows none)',
               'quoted spellings are generated only for 7-bit values without '
               'CR/LF/NUL, literals only for values without NUL']
BUDGET = {'quick': (1500, 16), 'thorough': (30000, 16)}

TEMPLATES = [
    (b'LOGIN {0} {1}', 'aa'), (b'SELECT {0}', 'm'), (b'EXAMINE {0}', 'm'),
    (b'CREATE {0}', 'm'), (b'DELETE {0}', 'm'), (b'SUBSCRIBE {0}', 'm'),
    (b'UNSUBSCRIBE {0}', 'm'), (b'RENAME {0} {1}', 'mm'),
    (b'LIST {0} {1}', 'ml'), (b'LSUB {0} {1}', 'ml'),
    (b'STATUS {0} (MESSAGES UIDNEXT)', 'm'),
    (b'APPEND {0} (\\Seen) {5+}\r\nhello', 'm'),
    (b'COPY 1:2 {0}', 'm'), (b'UID MOVE 3 {0}', 'm'),
    (b'SEARCH SUBJECT {0}', 'a'), (b'SEARCH HEADER {0} {1}', 'aa'),
    (b'UID SEARCH OR TEXT {0} BODY {1}', 'aa'),
    (b'SEARCH NOT FROM {0} TO {1}', 'aa'),
    (b'FETCH 1 (BODY[HEADER.FIELDS ({0} {1})])', 'aa'),
    (b'UID FETCH 1:* BODY.PEEK[HEADER.FIELDS.NOT ({0})]', 'a'),
    (b'ID ({0} {1})', 'ss'),
]
#: atoms of the templates whose letter case may be flipped
_WORD = re.compile(rb'[A-Za-z][A-Za-z.]+')


def _flip_case(text: bytes, mask: int) -> bytes:
    out = bytearray()
    pos = 0
    k = 0
    for m in _WORD.finditer(text):
        out += text[pos:m.start()]
        w = bytearray(m.group(0))
        for i in range(len(w)):
            if mask >> (k % 30) & 1:
                w[i] = w[i] ^ 0x20 if chr(w[i]).isalpha() else w[i]
            k += 1
        out += w
        pos = m.end()
    out += text[pos:]
    return bytes(out)


def _arg_spellings(v: bytes, kind: str) -> list[tuple[str, bytes]]:
    sp = spellings(v)
    if kind == 's':      # string only (ID parameters)
        sp = [s for s in sp if s[0] != 'atom']
    elif kind == 'l':    # list-mailbox: wildcards are atom characters too
        if v and all(0x20 < c < 0x7f and c not in b'(){"\\' for c in v) \
                and not any(s[0] == 'atom' for s in sp):
            sp.insert(0, ('atom', v))
    return sp


def _build(tmpl: bytes, kinds: str, vals: list[bytes], choice: list[int],
           mask: int) -> tuple[bytes, list[str]] | None:
    """Wire bytes of the command with argument i spelled by choice[i]."""
    # split the template at placeholders so only fixed text is case-flipped
    parts = re.split(rb'(\{\d\})', tmpl)
    out = bytearray(b'tag1 ')
    labels = []
    k = 0
    for part in parts:
        m = re.fullmatch(rb'\{(\d)\}', part)
        if m:
            i = int(m.group(1))
            sp = _arg_spellings(vals[i], kinds[i])
            if not sp:
                return None
            label, wire = sp[choice[i] % len(sp)]
            labels.append(label)
            out += wire
        elif part.startswith(b'{5+}') or b'{5+}' in part:
            out += part            # the fixed APPEND literal: keep verbatim
        else:
            out += _flip_case(part, mask >> k)
            k += 3
    out += b'\r\n'
    return bytes(out), labels


def _parse_outcome(wire: bytes) -> Any:
    try:
        cmd, used, nconts = parse_wire(wire)
    except Incomplete:
        return ('incomplete',)
    except Exception as exc:   # C06's business; here only equality matters
        return ('exception', type(exc).__name__)
    if type(cmd).__name__ == 'InvalidCommand':
        # rejected before (or regardless of) its literals: the same BAD for
        # every spelling; unread literal bytes are not part of the outcome
        return ('invalid', project(cmd))
    if used != len(wire):
        return ('trailing', used, len(wire))
    return ('ok', project(cmd))


# -- round trips -----------------------------------------------------------------

def _rt_types() -> dict[str, Any]:
    from pymap.parsing.primitives import Number, QuotedString, LiteralString
    from pymap.parsing.specials import AString, Mailbox, SequenceSet, Flag, \
        DateTime, FetchAttribute, Tag
    return {'number': Number, 'quoted': QuotedString,
            'literal': LiteralString, 'astring': AString, 'mailbox': Mailbox,
            'seqset': SequenceSet, 'flag': Flag, 'datetime': DateTime,
            'fetchattr': FetchAttribute, 'tag': Tag}


def _value_of(obj: Any) -> Any:
    from datetime import datetime
    v = obj.value
    if isinstance(v, datetime):
        return (v.timestamp(), v.utcoffset())
    return project(v)


def _roundtrip(case: dict[str, Any], out: CaseOut) -> None:
    from pymap.parsing import Params
    from pymap.parsing.exceptions import NotParseable
    from pymap.parsing.state import ParsingState, ParsingInterrupt
    typ = case['type']
    cls = _rt_types()[typ]
    wire, suffix = case['wire'], case['suffix']

    def parse(data: bytes) -> tuple[Any, bytes]:
        conts: list[memoryview] = []
        buf = data
        # a synchronising literal: hand the rest over as the continuation
        m = re.match(rb'(~?\{\d+\}\r\n)', buf)
        if m and typ in ('literal', 'astring', 'mailbox'):
            conts = [memoryview(buf[m.end():])]
            buf = buf[:m.end()]
        params = Params(ParsingState(continuations=conts),
                        max_append_len=10 ** 9)
        obj, rest = cls.parse(memoryview(buf), params)
        return obj, bytes(rest)

    try:
        obj1, rest1 = parse(wire + suffix)
    except NotParseable:
        out.label('rt-rejected:' + typ)
        return
    except ParsingInterrupt:
        out.label('rt-interrupt:' + typ)
        return
    except Exception as exc:
        out.label('rt-exception:' + type(exc).__name__)
        return
    out.label('rt-parsed:' + typ)
    if rest1 != suffix:
        out.fail(f'roundtrip-consumed-wrong-bytes:{typ}',
                 f'{typ}: parsing {wire + suffix!r} left {rest1!r}, expected '
                 f'exactly the suffix {suffix!r}')
        return
    if typ == 'fetchattr':
        # bytes(FetchAttribute) is the *response* form (BODY.PEEK -> BODY,
        # <o.n> -> <o>) and the property statement does not list it; only
        # "consumes exactly its own bytes" is asserted for it
        return
    ser = bytes(obj1)
    try:
        obj2, rest2 = parse(ser + suffix)
    except Exception as exc:
        out.fail(f'roundtrip-reparse-fails:{typ}',
                 f'{typ}: {wire!r} parsed, serialised as {ser!r}, which does '
                 f'not parse again before {suffix!r} ({type(exc).__name__})')
        return
    if rest2 != suffix:
        out.fail(f'roundtrip-reserialised-consumes-wrong-bytes:{typ}',
                 f'{typ}: {wire!r} serialised as {ser!r}; parsing it before '
                 f'{suffix!r} left {rest2!r}')
        return
    v1, v2 = _value_of(obj1), _value_of(obj2)
    if v1 != v2:
        out.fail(f'roundtrip-value-changed:{typ}',
                 f'{typ}: {wire!r} -> {v1!r}, serialised {ser!r} -> {v2!r}')


# -- wire level -----------------------------------------------------------------

_MASK = [(re.compile(rb'UIDVALIDITY \d+'), b'UIDVALIDITY #'),
         (re.compile(rb'(APPENDUID|COPYUID) \d+'), rb'\1 #'),
         (re.compile(rb'MAILBOXID \([^)]*\)'), b'MAILBOXID (#)'),
         (re.compile(rb'(EMAILID|THREADID) \([^)]*\)'), rb'\1 (#)'),
         (re.compile(rb'INTERNALDATE "[^"]*"'), b'INTERNALDATE "#"')]


def _mask(raw: bytes) -> bytes:
    for pat, rep in _MASK:
        raw = pat.sub(rep, raw)
    return raw


def _wire_run(wire: bytes, mailbox_vals: list[bytes]) -> tuple[bytes, Any]:
    """Run one spelled command on a fresh server after a fixed prelude;
    returns (masked responses, dump)."""
    from harness.servers import dict_sim
    from harness.client import Client
    from harness.wire import parse_stream
    with dict_sim() as sim:
        c = Client(sim)
        if not wire.upper().startswith(b'TAG1 LOGIN'):
            c.login('alice')
            c.command(b'CREATE Spam')
            c.command(b'APPEND INBOX {40+}',
                      b'Subject: hello\r\nTo: x@y\r\n\r\nhello world\r\n')
            c.command(b'APPEND INBOX {40+}',
                      b'Subject: other\r\nTo: z@y\r\n\r\nhello there\r\n')
            if not re.match(rb'tag1 (select|examine|create|delete|rename|'
                            rb'list|lsub|status|append|subscribe|'
                            rb'unsubscribe|id)', wire, re.I):
                c.command(b'SELECT INBOX')
        # send the raw bytes, answering continuation requests
        out = bytearray()
        from harness.pparse import _read_line
        pos = 0
        line, pos = _read_line(wire, 0)
        got = c.conn.cmd(line)
        out += got
        while got.endswith(b'\r\n') and \
                got[:-2].split(b'\r\n')[-1].startswith(b'+ ') \
                and pos < len(wire):
            m = re.search(rb'\{(\d+)\}\r\n$', line)
            n = int(m.group(1)) if m else 0
            lit = wire[pos:pos + n]
            pos += n
            line, pos = _read_line(wire, pos)
            got = c.conn.cmd(lit + line)
            out += got
            line = lit + line
        # continuation requests are part of the spelling, not of the result
        resp = b''.join(ln + b'\r\n' for ln in bytes(out).split(b'\r\n')
                        if ln and not ln.startswith(b'+ '))
        dump: Any = None
        if not c.conn.done:
            if c.conn.state._session is None:
                dump = 'not-authenticated'
            else:
                lst = c.command(b'LIST "" *')
                names = sorted(r.data['name'] for r in lst.untagged(b'LIST'))
                stat = []
                for nm in names:
                    r = c.command(b'STATUS {%d+}' % len(nm),
                                  nm + b' (MESSAGES UNSEEN)')
                    stat.append([x.data['items'] for x in
                                 r.untagged(b'STATUS')])
                lsub = c.command(b'LSUB "" *')
                dump = [names, stat,
                        sorted(r.data['name'] for r in lsub.untagged(b'LSUB'))]
        return _mask(resp), dump


# -- run_case ---------------------------------------------------------------------

def run_case(case: dict[str, Any]) -> CaseOut:
    out = CaseOut()
    kind = case['kind']
    out.label(kind)
    nt = False
    if kind in ('sibling', 'wire'):
        tmpl, kinds = TEMPLATES[case['tmpl'] % len(TEMPLATES)]
        vals = list(case['vals'])
        nargs = len(kinds)
        base = [0] * nargs
        built0 = _build(tmpl, kinds, vals, base, case['mask'])
        if built0 is None:
            out.label('no-legal-spelling')
            return out
        nt = any(not any(s[0] == 'atom' for s in _arg_spellings(v, k))
                 for v, k in zip(vals[:nargs], kinds))
        variants = [(built0[0], built0[1], 0)]
        for i in range(nargs):
            nsp = len(_arg_spellings(vals[i], kinds[i]))
            for j in range(1, nsp):
                ch = list(base)
                ch[i] = j
                b = _build(tmpl, kinds, vals, ch, case['mask'] ^ (j * 77))
                assert b is not None
                variants.append((b[0], b[1], case['mask'] ^ (j * 77)))
        out.counters['spellings'] = len(variants)
        if kind == 'sibling':
            ref = _parse_outcome(variants[0][0])
            out.label('outcome:' + str(ref[0]))
            for wire, labels, _m in variants[1:]:
                got = _parse_outcome(wire)
                if got != ref:
                    out.fail('sibling-spellings-parse-differently:'
                             + tmpl.split(b' ')[0].decode(),
                             f'{variants[0][0]!r} -> {ref!r}\n   but '
                             f'{wire!r} -> {got!r}')
                    break
        else:
            ref_w = _wire_run(variants[0][0], vals)
            for wire, labels, _m in variants[1:]:
                got_w = _wire_run(wire, vals)
                if got_w != ref_w:
                    out.fail('sibling-spellings-answered-differently:'
                             + tmpl.split(b' ')[0].decode(),
                             f'{variants[0][0]!r} -> {ref_w!r}\n   but '
                             f'{wire!r} -> {got_w!r}')
                    break
        out.sample = {'kind': kind, 'variants': [v[0] for v in variants[:4]]}
    elif kind == 'roundtrip':
        _roundtrip(case, out)
        nt = case['type'] in ('quoted', 'literal', 'fetchattr', 'datetime',
                              'seqset') or not re.fullmatch(
                                  rb'[A-Za-z0-9]*', case['wire'])
        out.sample = {'kind': kind, 'type': case['type'],
                      'wire': case['wire'], 'suffix': case['suffix']}
    elif kind == 'name':
        name = case['name']
        nt = any(not 0x20 <= ord(ch) <= 0x7e or ch == '&' for ch in name)
        from harness.client import HarnessProtocolError
        try:
            _name_case(name, out)
        except HarnessProtocolError as exc:
            # the reported spelling is not even a well-formed response item
            out.fail('name-reported-in-unparseable-response',
                     f'name {name!r}: {exc}')
        out.sample = {'kind': kind, 'name': name}
    if nt:
        out.nontrivial = case_hash(case)
    return out


def _name_case(name: str, out: CaseOut) -> None:
    from harness.servers import dict_sim
    from harness.client import Client
    if name.upper() == 'INBOX' or not name:
        out.label('name-skipped')
        return
    enc = mutf7_encode(name)
    with dict_sim() as sim:
        c = Client(sim)
        c.login('alice')
        res = c.command(b'CREATE {%d+}' % len(enc), enc)
        if not res.ok:
            out.label('create-refused')
            return
        lst = c.command(b'LIST "" *')
        reported = [r.data['name'] for r in lst.untagged(b'LIST')
                    if r.data['name'].upper() != b'INBOX']
        decoded = []
        for rep in reported:
            try:
                decoded.append(mutf7_decode(rep))
            except ValueError as exc:
                out.fail('list-reports-invalid-mutf7',
                         f'name {name!r}: LIST reports {rep!r}, not valid '
                         f'modified UTF-7 ({exc})')
                return
        if name not in decoded:
            out.fail('list-spelling-decodes-to-other-name',
                     f'created {name!r} (sent as {enc!r}); LIST reports '
                     f'{reported!r} which decodes to {decoded!r}')
            return
        st_ = c.command(b'STATUS {%d+}' % len(enc), enc + b' (MESSAGES)')
        srep = [r.data['name'] for r in st_.untagged(b'STATUS')]
        if not st_.ok or len(srep) != 1:
            out.fail('status-of-created-name-fails',
                     f'{name!r}: STATUS -> {st_.raw!r}')
            return
        try:
            sdec = mutf7_decode(srep[0])
        except ValueError:
            sdec = None
        if sdec != name:
            out.fail('status-spelling-decodes-to-other-name',
                     f'{name!r}: STATUS reports {srep[0]!r} -> {sdec!r}')


# -- generation ---------------------------------------------------------------------

def _values() -> Any:
    specials = st.sampled_from([b' ', b'"', b'\\', b'(', b')', b'{', b'%',
                                b'*', b']', b'&', b'&-', b'\r', b'\n',
                                b'\xc3\xa9', b'\xff', b'~', b'/', b'.'])
    word = st.sampled_from([b'INBOX', b'inbox', b'Spam', b'hello', b'Subject',
                            b'x', b'NIL', b'alice', b'pwalice', b'to', b'a b'])
    chunk = st.one_of(word, specials,
                      st.binary(min_size=1, max_size=4).filter(
                          lambda b: b'\x00' not in b),
                      st.text('abcXYZ019-_.', min_size=1, max_size=6).map(
                          str.encode))
    return st.lists(chunk, min_size=0, max_size=4).map(b''.join)


def _rt_wire() -> Any:
    num = st.integers(0, 2 ** 40).map(lambda n: b'%d' % n)
    nz = st.integers(1, 5000).map(lambda n: b'%d' % n)
    seqitem = st.one_of(nz, st.just(b'*'),
                        st.tuples(nz | st.just(b'*'),
                                  nz | st.just(b'*')).map(b':'.join))
    seqset = st.lists(seqitem, min_size=1, max_size=5).map(b','.join)
    atomtxt = st.text('abcdefXYZ0189$-_.!#&+', min_size=1, max_size=8).map(
        str.encode)
    flag = st.one_of(st.sampled_from([b'\\Seen', b'\\seen', b'\\DELETED',
                                      b'\\Flagged', b'\\Draft', b'\\Answered',
                                      b'\\Recent', b'\\*']),
                     atomtxt.map(lambda a: b'\\' + a), atomtxt)
    months = ['Jan', 'Feb', 'Mar', 'Apr', 'May', 'Jun', 'Jul', 'Aug', 'Sep',
              'Oct', 'Nov', 'Dec']
    dt = st.tuples(st.integers(1, 28), st.sampled_from(months),
                   st.integers(1970, 2100), st.integers(0, 23),
                   st.integers(0, 59), st.integers(0, 59),
                   st.sampled_from('+-'), st.integers(0, 14),
                   st.sampled_from([0, 15, 30, 45]), st.booleans()).map(
        lambda t: ('"%s-%s-%04d %02d:%02d:%02d %s%02d%02d"' % (
            ('%2d' if t[9] else '%02d') % t[0], t[1], t[2], t[3], t[4], t[5],
            t[6], t[7], t[8])).encode())
    tag = st.text('abcXYZ0123456789.-_!#$&\',/:;<=>?@[]^`|~', min_size=1,
                  max_size=10).map(str.encode)
    val = _values()

    def q(v: bytes) -> bytes:
        return b'"' + v.replace(b'\\', b'\\\\').replace(b'"', b'\\"') + b'"'
    quoted = val.filter(lambda v: b'\r' not in v and b'\n' not in v).map(q)
    literal = st.tuples(val, st.sampled_from([b'+', b'']),
                        st.sampled_from([b'', b'~'])).map(
        lambda t: b'%s{%d%s}\r\n%s' % (t[2], len(t[0]), t[1], t[0]))
    astring = val.flatmap(lambda v: st.sampled_from(
        [w for _, w in spellings(v)] or [b'""']))
    uni = st.text(st.characters(blacklist_categories=('Cs',)), min_size=1,
                  max_size=8)
    mailbox = uni.map(mutf7_encode).flatmap(lambda v: st.sampled_from(
        [w for _, w in spellings(v)]))
    part = st.lists(st.integers(1, 9), min_size=1, max_size=3).map(
        lambda ps: b'.'.join(b'%d' % p for p in ps))
    hdrs = st.lists(st.one_of(atomtxt, quoted.filter(lambda b: len(b) > 2)),
                    min_size=1, max_size=3).map(b' '.join)
    section = st.one_of(
        st.just(b''), part, st.sampled_from([b'HEADER', b'TEXT', b'header']),
        st.tuples(part, st.sampled_from([b'HEADER', b'TEXT', b'MIME'])).map(
            b'.'.join),
        hdrs.map(lambda h: b'HEADER.FIELDS (' + h + b')'),
        hdrs.map(lambda h: b'header.fields.not (' + h + b')'),
        st.tuples(part, hdrs).map(
            lambda t: t[0] + b'.HEADER.FIELDS (' + t[1] + b')'))
    partial = st.one_of(st.just(b''), st.tuples(
        st.integers(0, 999), st.integers(1, 999)).map(
            lambda t: b'<%d.%d>' % t))
    fetchattr = st.one_of(
        st.sampled_from([b'ENVELOPE', b'FLAGS', b'INTERNALDATE', b'UID',
                         b'RFC822.SIZE', b'BODYSTRUCTURE', b'BODY', b'RFC822',
                         b'RFC822.HEADER', b'RFC822.TEXT', b'EMAILID',
                         b'THREADID', b'flags', b'Rfc822.Size']),
        st.tuples(st.sampled_from([b'BODY', b'BODY.PEEK', b'body.peek']),
                  section, partial).map(
            lambda t: t[0] + b'[' + t[1] + b']' + t[2]),
        st.tuples(st.sampled_from([b'BINARY', b'BINARY.PEEK', b'BINARY.SIZE']),
                  st.one_of(st.just(b''), part), partial).map(
            lambda t: t[0] + b'[' + t[1] + b']'
            + (t[2] if t[0] != b'BINARY.SIZE' else b'')))
    return st.one_of(
        st.tuples(st.just('number'), num),
        st.tuples(st.just('seqset'), seqset),
        st.tuples(st.just('flag'), flag),
        st.tuples(st.just('datetime'), dt),
        st.tuples(st.just('tag'), tag),
        st.tuples(st.just('quoted'), quoted),
        st.tuples(st.just('literal'), literal),
        st.tuples(st.just('astring'), astring),
        st.tuples(st.just('mailbox'), mailbox),
        st.tuples(st.just('fetchattr'), fetchattr))


def strategy(tier: str) -> Any:
    vals = st.lists(_values(), min_size=2, max_size=2)
    sibling = st.fixed_dictionaries({
        'kind': st.just('sibling'), 'tmpl': st.integers(0, len(TEMPLATES) - 1),
        'vals': vals, 'mask': st.integers(0, 2 ** 30)})
    wire = st.fixed_dictionaries({
        'kind': st.just('wire'), 'tmpl': st.integers(0, len(TEMPLATES) - 1),
        'vals': vals, 'mask': st.integers(0, 2 ** 30)})
    suffix = st.tuples(st.sampled_from([b' ', b')', b'\r\n', b' (', b' "']),
                       st.binary(max_size=6)).map(b''.join) | st.just(b'')
    rt = st.tuples(_rt_wire(), suffix).map(
        lambda t: {'kind': 'roundtrip', 'type': t[0][0], 'wire': t[0][1],
                   'suffix': t[1]})
    alphabet = st.one_of(
        st.characters(blacklist_categories=('Cs',),
                      blacklist_characters='/'),
        st.sampled_from(list('&-+,\t\r\n\x00\x7f ~"\\*%') + ['é',
                        '中', '\U0001f600', 'Ā']))
    name = st.fixed_dictionaries({
        'kind': st.just('name'),
        'name': st.lists(alphabet, min_size=1, max_size=8).map(''.join)})
    # wire-level cases cost two servers per spelling: keep them a minority
    return st.one_of(sibling, sibling, sibling, rt, rt, rt, rt, name, name,
                     wire)
