"""C06 - every input is answered: no hang, no internal error, no silent drop.

Case kinds:
  parse   - a byte string through Commands.parse exactly as the connection
            does it: must yield a command / InvalidCommand / "needs more
            input"; any other exception is a finding.
  wire    - the bytes through a real connection in one of three states, with
            a bystander connection that must still be served.
  message - a message stored by APPEND, then read with every FETCH attribute
            and searched with every SEARCH key.
  sieve   - bytes on the ManageSieve listener.
A per-case CPU budget (ITIMER_VIRTUAL) turns a synchronous hang into a
finding; a budget hit is confirmed by a second run with a six times larger
budget before it is reported.
"""
from __future__ import annotations

import re
import signal
import traceback
from typing import Any

from hypothesis import strategies as st

from harness import gen
from harness.runner import CaseOut, case_hash

ID = 'C06'
LEVEL = 'exploration'
RULE = ('cases = parse/wire (a command line from a hole-filled grammar of '
        'every command, mutated valid lines, or raw bytes; wire additionally '
        'a state in {not-authenticated, authenticated, selected} and optional '
        'continuation data), message (generated message bytes read back with '
        'every FETCH attribute and SEARCH key) or sieve (ManageSieve command '
        'bytes). Non-trivial = the command word was recognised (the answer is '
        'not "Unknown command"/"Command not given") or the line carries a '
        'literal; for message cases: the message has headers the server '
        'interprets; distinct by case hash.')
ASSUMPTIONS = ['lines are shorter than the 64 KiB StreamReader limit',
               'a CPU-budget hit that is not confirmed by the larger budget '
               'is counted as inconclusive, never as a violation',
               'ManageSieve: NO "Server error." is not counted (the statement '
               'forbids an internal-error BYE and a silent close only)']
BUDGET = {'quick': (500, 16), 'thorough': (20000, 16)}

CPU_BUDGET = 10.0

import logging  # noqa: E402
logging.disable(logging.CRITICAL)   # pymap logs unhandled sieve errors


OWN_CPU_BUDGET = True     # this module arms SIGVTALRM itself


class CpuBudget(BaseException):
    pass


def _on_timer(signum: int, frame: Any) -> None:
    raise CpuBudget()


def _where(tb: Any) -> str:
    """innermost frame inside the pymap package (or stdlib as fallback)"""
    best = None
    for fs in traceback.extract_tb(tb):
        if '/pymap/' in fs.filename:
            best = fs
    if best is None:
        fs = traceback.extract_tb(tb)[-1]
        return f'{fs.filename.split("/")[-1]}:{fs.name}'
    return f'{best.filename.split("/pymap/")[-1]}:{best.name}'


def _with_budget(func: Any, out: CaseOut, what: str) -> Any:
    """Run func() under the CPU budget; confirm a hit with 6x the budget."""
    for attempt, budget in enumerate((CPU_BUDGET, CPU_BUDGET * 6)):
        signal.signal(signal.SIGVTALRM, _on_timer)
        signal.setitimer(signal.ITIMER_VIRTUAL, budget)
        try:
            return func()
        except CpuBudget as exc:
            where = _where(exc.__traceback__)
            if attempt == 1:
                out.fail(f'hang:{where}',
                         f'{what}: more than {budget:.0f}s of CPU in one '
                         f'case, last seen in {where}')
                return None
            out.label('cpu-budget-hit')
        finally:
            signal.setitimer(signal.ITIMER_VIRTUAL, 0)
    return None


# -- parse tier -------------------------------------------------------------------

def _parse_case(data: bytes, out: CaseOut) -> None:
    from harness.pparse import parse_wire, Incomplete

    def go() -> Any:
        try:
            cmd, used, nconts = parse_wire(data)
        except Incomplete:
            return 'incomplete'
        except CpuBudget:
            raise
        except RecursionError as exc:
            return ('exc', 'RecursionError', _where(exc.__traceback__))
        except Exception as exc:
            return ('exc', type(exc).__name__, _where(exc.__traceback__))
        return cmd
    res = _with_budget(go, out, f'parsing {data[:200]!r}')
    if res is None:
        return
    if isinstance(res, tuple):
        out.fail(f'parser-raises:{res[1]}:{res[2]}',
                 f'Commands.parse({data[:300]!r}) raised {res[1]} in '
                 f'{res[2]} instead of returning InvalidCommand')
        out.label('recognised')
    elif res == 'incomplete':
        out.label('needs-more-input', 'recognised')
    else:
        name = type(res).__name__
        if name == 'InvalidCommand':
            if res.command_type is not None:
                out.label('invalid-args', 'recognised')
            else:
                out.label('unknown-command')
        else:
            out.label('valid', 'recognised')


# -- wire tier --------------------------------------------------------------------

_TAGRE = re.compile(rb'[\x21\x23\x24\x26\x27\x2c-\x5b\x5d-\x7a\x7c-\x7e]+')


def _wire_case(case: dict[str, Any], out: CaseOut) -> None:
    from harness.servers import dict_sim, maildir_sim
    from harness.client import Client
    from harness.simloop import NoQuiescence
    data = case['data']
    state = case['state']

    def go() -> None:
        kw: dict[str, Any] = {}
        with dict_sim(**kw) as sim:
            by = Client(sim, prefix=b'by')
            c = Client(sim)
            if state >= 1:
                c.login('alice')
                by.login('alice')
            if state >= 1:
                c.command(b'CREATE ' + b'a' * 40)
            if state >= 2:
                c.command(b'APPEND INBOX (\\Seen) {30+}',
                          b'Subject: x\r\nTo: a@b\r\n\r\nbody\r\n\r\n')
                c.command(b'SELECT INBOX')
            conn = c.conn
            try:
                got = conn.cmd(data)
                conts = list(case.get('conts') or [])
                rounds = 0
                while got.endswith(b'\r\n') and got[:-2].split(
                        b'\r\n')[-1].startswith(b'+ ') and conts \
                        and rounds < 6:
                    got += conn.cmd(conts.pop(0) + b'\r\n')
                    rounds += 1
            except NoQuiescence:
                out.fail('no-quiescence',
                         f'{data[:200]!r}: the loop never went idle')
                return
            if case.get('eof'):
                # the client disappears right here, possibly in the middle
                # of a line or of a literal
                out.label('eof-right-after-data')
                if not conn.done:
                    conn.eof()
                    try:
                        sim.settle(advance=1.0)
                    except NoQuiescence:
                        out.fail('no-quiescence-after-eof', f'{data[:200]!r}')
                        return
                if isinstance(conn.exception, CpuBudget):
                    raise CpuBudget().with_traceback(
                        conn.exception.__traceback__)
                if _serverbug(bytes(conn.writer.all), conn) or (
                        conn.done and conn.exception is not None):
                    _judge(out, data, bytes(conn.writer.all), conn, state)
                elif not conn.done:
                    out.fail('connection-survives-eof',
                             f'after {data[:200]!r} and EOF from the client '
                             f'the connection task is still running')
                r = by.conn.cmd(b'by9 NOOP\r\n')
                if b'by9 OK' not in r and not out.failures:
                    out.fail('bystander-not-served',
                             f'after {data[:200]!r} + EOF another '
                             f'connection got {r!r} for NOOP')
                return
            _judge(out, data, got, conn, state)
            # further lines on the same connection (reaches the consecutive-
            # BAD limit and multi-step effects such as CREATE then LIST)
            pending = len(data) - (data.rfind(b'\n') + 1)
            for extra in case.get('more') or []:
                if conn.done or out.failures:
                    break
                if b'\n' not in extra:
                    continue
                if pending + len(extra) > 60000:
                    continue    # would exceed the 64 KiB stream line limit
                pending = 0
                try:
                    got2 = conn.cmd(extra)
                    if got2.startswith(b'+') and b' AUTHENTICATE' in \
                            extra.upper() and not conn.done:
                        # a SASL exchange among the follow-up lines: end it
                        # with something that cannot succeed
                        cont = [b'*', b'=', b'', b'/w==', b'AGEAYg=='][
                            len(extra) % 5]
                        got2 += conn.cmd(cont + b'\r\n')
                        out.label('failed-sasl-exchange-in-follow-up')
                except NoQuiescence:
                    out.fail('no-quiescence', f'{extra[:200]!r}')
                    break
                _judge_simple(out, extra[:60], got2, conn, data)
            if state >= 1 and not conn.done and not out.failures:
                # names created above are echoed by LIST / LSUB
                conn.cmd(b'\r\n')
                for probe in (b'zl1 LIST "" *\r\n', b'zl2 LSUB "" *\r\n'):
                    if conn.done:
                        break
                    got3 = conn.cmd(probe)
                    if re.match(rb'\+ ', got3) or got3 == b'':
                        break          # swallowed by a pending literal
                    _judge_simple(out, probe.strip(), got3, conn, data)
            # the bystander must still be served
            r = by.conn.cmd(b'by9 NOOP\r\n')
            if b'by9 OK' not in r:
                out.fail('bystander-not-served',
                         f'after {data[:200]!r} another connection got '
                         f'{r!r} for NOOP')
            # the client goes away, wherever the server is in its reading:
            # the connection must end (and not spin)
            if not conn.done and not out.failures:
                conn.eof()
                try:
                    sim.settle(advance=1.0)
                except NoQuiescence:
                    out.fail('no-quiescence-after-eof', f'{data[:200]!r}')
                    return
                if isinstance(conn.exception, CpuBudget):
                    raise CpuBudget().with_traceback(
                        conn.exception.__traceback__)
                if not conn.done:
                    out.fail('connection-survives-eof',
                             f'after {data[:200]!r} and EOF from the client '
                             f'the connection task is still running')
                else:
                    out.label('eof-ended-connection')
    _with_budget(go, out, f'wire {data[:200]!r}')


_SBUG = re.compile(rb'(^|\r\n)\* BYE \[SERVERBUG\]')


def _serverbug(got: bytes, conn: Any) -> bool:
    """An internal-error BYE: the line is there and the connection ended
    (stored message text may itself contain the words)."""
    return bool(_SBUG.search(got)) and (conn.done or conn.writer.closed)


def _budget_hit_inside_server(conn: Any) -> None:
    """asyncio keeps a BaseException raised inside a task in the task: the
    CPU-budget signal then looks like an internal server error. Hand it on to
    _with_budget, which decides (inconclusive unless confirmed)."""
    if isinstance(conn.exception, CpuBudget):
        raise CpuBudget().with_traceback(conn.exception.__traceback__)


def _judge(out: CaseOut, data: bytes, got: bytes, conn: Any,
           state: int) -> None:
    _budget_hit_inside_server(conn)
    desc = f'state={state} sent={data[:300]!r} got={got[-300:]!r}'
    if _serverbug(got, conn):
        exc = conn.exception
        where = _where(exc.__traceback__) if exc is not None else '?'
        name = type(exc).__name__ if exc is not None else '?'
        out.fail(f'serverbug:{name}:{where}',
                 f'internal-error BYE ({name} in {where}); {desc}')
        return
    if conn.done and conn.exception is not None:
        exc = conn.exception
        out.fail(f'connection-task-died:{type(exc).__name__}:'
                 f'{_where(exc.__traceback__)}', desc)
        return
    lines = got.split(b'\r\n')
    if conn.writer.closed or conn.done:
        if not any(ln.startswith(b'* BYE') for ln in lines):
            out.fail('closed-without-bye', desc)
        out.label('closed-with-bye')
        return
    # first line must have been answered
    first = data.split(b'\n', 1)[0]
    m = _TAGRE.match(first)
    tag = m.group(0) if m else None
    # a line that begins with a legal tag followed by SP or the end of the
    # line must be answered under exactly that tag; for anything else (no
    # readable tag) any completion - tagged with whatever the server read, or
    # '* BAD' - counts as the answer
    wellformed = tag is not None and b'+' not in tag and \
        first[len(tag):len(tag) + 1] in (b' ', b'\r', b'')
    answered = False
    for ln in lines:
        if ln.startswith(b'+ ') or ln == b'+':
            answered = True
        elif wellformed and re.match(
                re.escape(tag) + rb' (OK|NO|BAD)( |$)', ln):
            answered = True
        elif not wellformed and re.match(rb'\S+ (OK|NO|BAD)( |$)', ln):
            answered = True
        elif ln.startswith(b'* BAD') and (tag is None or b'+' in tag):
            answered = True
        elif ln.startswith(b'* BAD'):
            # pymap could not read a tag that RFC 3501 allows: still an
            # answer (the statement asks for a completion, the tag grammar
            # gap is not C06's)
            answered = True
            out.label('untagged-bad-for-legal-tag')
    if b'\n' not in data:
        out.label('no-newline')
        return
    if not answered:
        from harness.pparse import _read_line, Incomplete
        try:
            _read_line(data, 0)
        except Incomplete:
            pass
        else:
            # a complete line (every announced literal byte and the final
            # CRLF were sent) and not a single byte in reply
            out.fail('line-not-answered', desc)
            return
        # the server may legitimately still be reading (a literal whose
        # count reaches past the bytes sent): finishing the line must then
        # produce the answer
        more = b''
        for _ in range(3):
            more += conn.cmd(b'\r\n')
            if re.search(rb'(^|\r\n)(\S+ (OK|NO|BAD)|\* BYE)( |\r\n)', more):
                break
        else:
            from harness.pparse import _read_line, Incomplete
            try:
                _read_line(data + b'\r\n' * 3, 0)
            except Incomplete:
                # a {n+} literal announces more bytes than were ever sent
                out.label('awaiting-announced-literal-bytes')
                return
            out.fail('line-not-answered', desc + f' then {more!r}')
            return
        out.label('answered-after-line-completed')
        got += more
        if _serverbug(more, conn) or conn.done:
            return _judge(out, data, got, conn, state) if \
                _serverbug(more, conn) else None
    # still responsive on the same connection (unless it asked for more)
    last = [ln for ln in lines if ln][-1] if any(lines) else b''
    if last.startswith(b'+'):
        out.label('awaiting-continuation')
        return
    from harness.pparse import _read_line, Incomplete
    pos = 0
    try:
        while pos < len(data):
            _, pos = _read_line(data, pos)
    except Incomplete:
        # a later line of the data announced a literal that is still open:
        # whatever is sent next is literal data, not a command
        out.label('data-ends-inside-a-literal')
        return
    r = conn.cmd(b'\r\n')
    r = conn.cmd(b'zz9 NOOP\r\n')
    if b'zz9 OK' in r:
        return
    if (conn.writer.closed or conn.done) and b'* BYE' in got + r \
            and not _serverbug(r, conn):
        out.label('bad-command-limit-bye')
        return
    if r.startswith(b'+') or r == b'':
        # the NOOP was swallowed as literal data of a pending {n+} literal
        out.label('noop-swallowed-by-literal')
        return
    out.fail('unresponsive-afterwards', f'{desc} then NOOP -> {r!r}')


# -- message tier -------------------------------------------------------------------

FETCH_ATTRS = [b'ENVELOPE', b'BODYSTRUCTURE', b'BODY', b'FLAGS', b'UID',
               b'INTERNALDATE', b'RFC822.SIZE', b'RFC822', b'RFC822.HEADER',
               b'RFC822.TEXT', b'BODY[]', b'BODY[HEADER]', b'BODY[TEXT]',
               b'BODY[1]', b'BODY[1.MIME]', b'BODY[1.HEADER]', b'BODY[1.TEXT]',
               b'BODY[2]', b'BODY[1.1]', b'BODY[1.2.MIME]',
               b'BODY[HEADER.FIELDS (Subject Date)]',
               b'BODY[HEADER.FIELDS.NOT (Subject)]',
               b'BODY[1.HEADER.FIELDS (To)]', b'BODY[]<0.10>', b'BODY[TEXT]<5.1>',
               b'BINARY[]', b'BINARY[1]', b'BINARY[1.1]', b'BINARY.SIZE[]',
               b'BINARY.SIZE[1]', b'BINARY.PEEK[2]', b'EMAILID', b'THREADID',
               b'BODY.PEEK[1]<0.5>', b'FAST', b'ALL', b'FULL']
SEARCH_KEYS = [b'ALL', b'ANSWERED', b'BCC a', b'BEFORE 1-Jan-2020', b'BODY x',
               b'CC a', b'DELETED', b'DRAFT', b'FLAGGED', b'FROM a',
               b'HEADER Subject x', b'HEADER X-Custom ""', b'KEYWORD $x',
               b'LARGER 10', b'NEW', b'NOT SEEN', b'OLD', b'ON 1-Jan-2001',
               b'OR FROM a TO b', b'RECENT', b'SEEN', b'SENTBEFORE 1-Jan-2020',
               b'SENTON 1-Jan-2001', b'SENTSINCE 1-Jan-2000',
               b'SINCE 1-Jan-2000', b'SMALLER 100', b'SUBJECT x', b'TEXT x',
               b'TO a', b'UID 1:*', b'UNANSWERED', b'UNDELETED', b'UNDRAFT',
               b'UNFLAGGED', b'UNKEYWORD $x', b'UNSEEN', b'1:*',
               b'CHARSET UTF-8 SUBJECT x', b'(OR SUBJECT x (NOT BODY y))',
               b'EMAILID Mx', b'THREADID Tx']


def _message_case(case: dict[str, Any], out: CaseOut) -> None:
    from harness.servers import dict_sim, maildir_sim
    from harness.client import Client
    import shutil
    import tempfile
    msg = case['msg']
    backend = case.get('backend', 'dict')

    def go() -> None:
        tmp = None
        if backend == 'dict':
            sim = dict_sim()
        else:
            tmp = tempfile.mkdtemp(prefix='c06-')
            sim = maildir_sim(tmp)
        try:
            c = Client(sim)
            c.login('alice')
            conn = c.conn
            got = conn.cmd(b'a1 APPEND INBOX {%d+}\r\n' % len(msg) + msg
                           + b'\r\n')
            _judge_simple(out, b'APPEND', got, conn, msg, b'a1 ')
            if conn.done or b'a1 OK' not in got:
                out.label('append-not-ok')
                return
            got = conn.cmd(b'a2 SELECT INBOX\r\n')
            _judge_simple(out, b'SELECT', got, conn, msg)
            n = 0
            for attr in FETCH_ATTRS:
                if conn.done:
                    return
                n += 1
                got = conn.cmd(b'f%d FETCH 1 (%s)\r\n' % (n, attr)
                               if attr not in (b'FAST', b'ALL', b'FULL')
                               else b'f%d FETCH 1 %s\r\n' % (n, attr))
                if not _judge_simple(out, b'FETCH ' + attr, got, conn, msg,
                                     b'f%d ' % n):
                    return
            for key in SEARCH_KEYS:
                if conn.done:
                    return
                n += 1
                got = conn.cmd(b's%d SEARCH %s\r\n' % (n, key))
                if not _judge_simple(out, b'SEARCH ' + key, got, conn, msg,
                                     b's%d ' % n):
                    return
            for extra in (b'COPY 1 INBOX', b'UID MOVE 1:* INBOX',
                          b'STATUS INBOX (MESSAGES UNSEEN)', b'CLOSE'):
                n += 1
                got = conn.cmd(b'x%d %s\r\n' % (n, extra))
                if not _judge_simple(out, extra, got, conn, msg,
                                     b'x%d ' % n):
                    return
        finally:
            sim.close()
            if tmp:
                shutil.rmtree(tmp, ignore_errors=True)
    _with_budget(go, out, f'message {msg[:200]!r}')


def _judge_simple(out: CaseOut, what: bytes, got: bytes, conn: Any,
                  msg: bytes, tag: bytes | None = None) -> bool:
    _budget_hit_inside_server(conn)
    desc = f'{what!r} on message {msg[:400]!r} -> {got[-200:]!r}'
    if _serverbug(got, conn) or (conn.done and conn.exception is not None):
        exc = conn.exception
        where = _where(exc.__traceback__) if exc is not None else '?'
        name = type(exc).__name__ if exc is not None else '?'
        out.fail(f'serverbug:{name}:{where}',
                 f'internal error ({name} in {where}); {desc}')
        return False
    if conn.done or conn.writer.closed:
        if b'* BYE' not in got:
            out.fail('closed-without-bye', desc)
        return False
    if tag is not None and not re.search(
            rb'(^|\r\n)' + re.escape(tag) + rb'(OK|NO|BAD)', got):
        out.fail('line-not-answered', desc)
        return False
    return True


# -- sieve tier ---------------------------------------------------------------------

def _sieve_case(case: dict[str, Any], out: CaseOut) -> None:
    from harness.servers import dict_sim
    import base64
    data = case['data']

    def go() -> None:
        with dict_sim(sieve=True) as sim:
            conn = sim.connect('sieve')
            conn.take()
            if case['state'] >= 1:
                blob = base64.b64encode(b'\x00alice\x00pwalice')
                r = conn.cmd(b'AUTHENTICATE "PLAIN" "%s"\r\n' % blob)
                if not r.startswith(b'OK'):
                    raise RuntimeError(f'sieve login failed: {r!r}')
            def eof_check() -> None:
                # the client goes away: the connection must end, not spin
                conn.eof()
                sim.settle(advance=1.0)
                if isinstance(conn.exception, CpuBudget):
                    raise CpuBudget().with_traceback(
                        conn.exception.__traceback__)
                if not conn.done:
                    out.fail('sieve-connection-survives-eof', desc)

            got = conn.cmd(data)
            desc = f'sieve state={case["state"]} sent={data[:300]!r} ' \
                   f'got={got[-200:]!r}'
            _budget_hit_inside_server(conn)
            if conn.done and conn.exception is not None:
                exc = conn.exception
                out.fail(f'sieve-task-died:{type(exc).__name__}:'
                         f'{_where(exc.__traceback__)}', desc)
                return
            if conn.done or conn.writer.closed:
                if not re.search(rb'(^|\r\n)BYE', got):
                    out.fail('sieve-closed-without-bye', desc)
                return
            if b'\n' not in data:
                return
            if got == b'':
                # waiting for announced literal data is the only silent
                # state allowed
                from harness.pparse import _read_line, Incomplete
                try:
                    _read_line(data, 0)
                    complete = not re.search(rb'\{\d+\}\r?\n', data)
                except Incomplete:
                    complete = False
                if complete:
                    out.fail('sieve-line-not-answered', desc)
                    return
                out.label('awaiting-literal')
                eof_check()
                return
            if re.fullmatch(rb'("[^"]*"|\{\d+\}\r\n.*)\r\n', got, re.S):
                out.label('sasl-challenge')   # continuation of AUTHENTICATE
                return
            if not re.search(rb'(^|\r\n)(OK|NO|BYE)( |\r\n)', got):
                out.fail('sieve-line-not-answered', desc)
                return
            by = sim.connect('sieve')
            if not by.take().endswith(b'\r\n'):
                out.fail('sieve-bystander-not-served', desc)
                return
            eof_check()
    _with_budget(go, out, f'sieve {data[:200]!r}')


# -- run_case -----------------------------------------------------------------------

def run_case(case: dict[str, Any]) -> CaseOut:
    out = CaseOut()
    kind = case['kind']
    out.label(kind)
    nt = False
    if kind == 'parse':
        _parse_case(case['data'], out)
        nt = 'recognised' in out.labels or b'{' in case['data']
        out.sample = {'kind': kind, 'data': case['data'][:200]}
    elif kind == 'wire':
        _wire_case(case, out)
        first = case['data'].split(b' ')
        nt = b'{' in case['data'] or (len(first) > 1 and first[1].strip().upper()
                                      in _COMMAND_WORDS)
        out.label('state=%d' % case['state'])
        out.sample = {'kind': kind, 'state': case['state'],
                      'data': case['data'][:200]}
    elif kind == 'message':
        _message_case(case, out)
        nt = bool(re.search(rb'(?im)^(content-type|date|from|subject|'
                            rb'content-transfer-encoding):', case['msg']))
        out.label(case.get('backend', 'dict'))
        out.sample = {'kind': kind, 'msg': case['msg'][:200]}
    elif kind == 'sieve':
        _sieve_case(case, out)
        first = case['data'].split(b' ')[0].strip().upper()
        nt = first in _SIEVE_WORDS or b'{' in case['data']
        out.sample = {'kind': kind, 'state': case['state'],
                      'data': case['data'][:200]}
    if nt:
        out.nontrivial = case_hash(case)
    return out


# -- generation ---------------------------------------------------------------------

_COMMAND_WORDS = {b'CAPABILITY', b'NOOP', b'LOGOUT', b'ID', b'STARTTLS',
                  b'AUTHENTICATE', b'LOGIN', b'SELECT', b'EXAMINE', b'CREATE',
                  b'DELETE', b'RENAME', b'SUBSCRIBE', b'UNSUBSCRIBE', b'LIST',
                  b'LSUB', b'STATUS', b'APPEND', b'CHECK', b'CLOSE',
                  b'EXPUNGE', b'SEARCH', b'FETCH', b'STORE', b'COPY', b'MOVE',
                  b'UID', b'IDLE'}
_SIEVE_WORDS = {b'AUTHENTICATE', b'STARTTLS', b'LOGOUT', b'CAPABILITY',
                b'HAVESPACE', b'PUTSCRIPT', b'LISTSCRIPTS', b'SETACTIVE',
                b'GETSCRIPT', b'DELETESCRIPT', b'RENAMESCRIPT', b'CHECKSCRIPT',
                b'NOOP', b'UNAUTHENTICATE'}

TEMPLATES = [
    b'CAPABILITY', b'NOOP', b'LOGOUT', b'STARTTLS', b'CHECK', b'CLOSE',
    b'EXPUNGE', b'IDLE', b'ID NIL', b'ID (%A %A)', b'ID (%A %A %A %A)',
    b'ID %A', b'LOGIN %A %A', b'LOGIN alice pwalice',
    b'AUTHENTICATE %A', b'AUTHENTICATE PLAIN', b'AUTHENTICATE PLAIN %A',
    b'SELECT %M', b'EXAMINE %M', b'SELECT %M (%A)', b'CREATE %M',
    b'DELETE %M', b'RENAME %M %M', b'SUBSCRIBE %M', b'UNSUBSCRIBE %M',
    b'LIST %M %M', b'LSUB %M %M', b'LIST (%A) %M %M', b'LIST "" %A',
    b'STATUS %M (%W)', b'STATUS %M (MESSAGES RECENT UIDNEXT UIDVALIDITY '
    b'UNSEEN)', b'STATUS INBOX %A',
    b'APPEND %M %L', b'APPEND %M (%F) %L', b'APPEND %M (%F) %D %L',
    b'APPEND INBOX %D %L', b'APPEND INBOX %L %L', b'APPEND INBOX (%F) %A',
    b'APPEND INBOX ~%L',
    b'SEARCH %K', b'UID SEARCH %K', b'SEARCH CHARSET %A %K',
    b'SEARCH CHARSET UTF-8 %K', b'SEARCH CHARSET UTF-8 HEADER %A %A',
    b'SEARCH CHARSET utf-8 OR FROM %A SUBJECT %A', b'SEARCH LARGER %N',
    b'FETCH %N UID', b'FETCH 1 BODY[]<%N.%N>', b'UID FETCH %N:%N FLAGS',
    b'SEARCH RETURN (%A) %K', b'SEARCH %K %K %K',
    b'FETCH %S %T', b'UID FETCH %S %T', b'FETCH %S (%T %T)',
    b'FETCH %S (%T) (%A)', b'FETCH %S %A',
    b'STORE %S %G (%F)', b'UID STORE %S %G %F', b'STORE %S %A %A',
    b'STORE %S (%A) FLAGS (%F)',
    b'COPY %S %M', b'UID COPY %S %M', b'MOVE %S %M', b'UID MOVE %S %M',
    b'UID EXPUNGE %S', b'UID %A', b'UID %A %S', b'EXPUNGE %A', b'%A', b'%A %A',
]
FETCH_ITEMS = [b'ALL', b'FAST', b'FULL', b'FLAGS', b'UID', b'ENVELOPE',
               b'BODY', b'BODYSTRUCTURE', b'INTERNALDATE', b'RFC822',
               b'RFC822.SIZE', b'RFC822.HEADER', b'RFC822.TEXT', b'BODY[]',
               b'BODY.PEEK[]', b'BODY[%S]', b'BODY[%N.%N.MIME]',
               b'BODY[HEADER.FIELDS (%A %A)]', b'BODY[HEADER.FIELDS ()]',
               b'BODY[%N.HEADER.FIELDS.NOT (%A)]', b'BODY[]<%N.%N>',
               b'BODY[TEXT]<%N>', b'BODY[]<0.0>', b'BINARY[%N]',
               b'BINARY.SIZE[%N]', b'BINARY.PEEK[%N]<%N.%N>', b'BODY[%A]',
               b'BODY[', b'BODY[]]', b'BODY[1.%A]', b'BODY[0]', b'EMAILID',
               b'THREADID', b'MODSEQ', b'%A']
SEARCH_ITEMS = [b'ALL', b'ANSWERED', b'BCC %A', b'BEFORE %E', b'BODY %A',
                b'CC %A', b'DELETED', b'DRAFT', b'FLAGGED', b'FROM %A',
                b'HEADER %A %A', b'KEYWORD %A', b'LARGER %N', b'NEW',
                b'NOT %K', b'OLD', b'ON %E', b'OR %K %K', b'RECENT', b'SEEN',
                b'SENTBEFORE %E', b'SENTON %E', b'SENTSINCE %E', b'SINCE %E',
                b'SMALLER %N', b'SUBJECT %A', b'TEXT %A', b'TO %A', b'UID %S',
                b'UNANSWERED', b'UNDELETED', b'UNDRAFT', b'UNFLAGGED',
                b'UNKEYWORD %A', b'UNSEEN', b'%S', b'(%K)', b'(%K %K)', b'()',
                b'EMAILID %A', b'THREADID %A', b'CHARSET %A', b'%A',
                b'OR %K', b'NOT', b'X-GM-RAW %A', b'MODSEQ %N',
                b'YOUNGER %N', b'OLDER %N']


def _fill(tmpl: bytes, ints: list[int], atoms: list[bytes],
          depth: int = 0) -> bytes:
    """Deterministic hole filling driven by the drawn ints/atoms."""
    pos = [0]

    def nxt() -> int:
        pos[0] += 1
        return ints[(pos[0] + depth * 7) % len(ints)]

    def atom() -> bytes:
        return atoms[nxt() % len(atoms)]

    def astring() -> bytes:
        v = atom()
        k = nxt() % 6
        if k == 0:
            return v or b'""'
        if k == 1:
            return b'"' + v.replace(b'\\', b'\\\\').replace(b'"', b'\\"') \
                + b'"'
        if k == 2:
            return b'{%d+}\r\n' % len(v) + v
        if k == 3:
            return b'{%d+}\r\n' % (len(v) + (nxt() % 3) - 1) + v  # wrong count
        if k == 4:
            return b'"' + v + b'"'     # unescaped
        return v

    def seq() -> bytes:
        k = nxt() % 8
        a, b = nxt() % 7, nxt() % 7
        return [b'%d' % a, b'%d:%d' % (a, b), b'*', b'%d:*' % a, b'1:*',
                b'%d,%d:*,%d' % (a, b, a), atom(), b'1'][k]

    out = bytearray()
    i = 0
    while i < len(tmpl):
        c = tmpl[i:i + 1]
        if c == b'%' and i + 1 < len(tmpl):
            h = tmpl[i + 1:i + 2]
            i += 2
            if h == b'A':
                out += astring()
            elif h == b'M':
                k = nxt() % 4
                out += [b'INBOX', b'Spam', astring(), astring()][k]
            elif h == b'S':
                out += seq()
            elif h == b'N':
                out += [b'0', b'1', b'2', b'10', b'4294967296',
                        b'99999999999999999999', atom(), b'9' * 4301,
                        b'1' + b'0' * 6000][nxt() % 9]
            elif h == b'F':
                fl = [b'\\Seen', b'\\Deleted', b'\\Flagged \\Draft', b'$kw',
                      b'\\Recent', b'\\*', b'', atom(), b'\\' + atom()]
                out += fl[nxt() % len(fl)]
            elif h == b'G':
                out += [b'FLAGS', b'+FLAGS', b'-FLAGS', b'FLAGS.SILENT',
                        b'+FLAGS.SILENT', b'-flags.silent', atom()][nxt() % 7]
            elif h == b'W':
                out += [b'MESSAGES', b'RECENT UNSEEN', b'UIDNEXT', b'',
                        b'MAILBOXID', b'SIZE', atom()][nxt() % 7]
            elif h == b'D':
                out += [b'"01-Jan-2020 10:00:00 +0000"',
                        b'" 1-Jan-2020 10:00:00 +0000"',
                        b'"31-Feb-2020 10:00:00 +0000"',
                        b'"01-Jan-2020 10:00:00"', b'"01-Jan-99999 10:00:00 '
                        b'+0000"', b'"01-Jan-2020 25:00:00 +0000"',
                        b'"01-Jan-2020 10:00:00 +9999"', astring()][nxt() % 8]
            elif h == b'E':
                out += [b'1-Jan-2020', b'01-Jan-2020', b'"1-Jan-2020"',
                        b'31-Feb-2020', b'1-Foo-2020', b'1-Jan-99999',
                        b'1-Jan-0000', b'1-jan-2020', atom()][nxt() % 9]
            elif h == b'L':
                m = atoms[nxt() % len(atoms)] + b'\r\n\r\nbody'
                k = nxt() % 5
                out += [b'{%d+}\r\n' % len(m) + m, b'{%d}\r\n' % len(m),
                        b'{%d+}\r\n' % (len(m) + 2) + m,
                        b'{99999999999+}\r\n' + m,
                        b'~{%d+}\r\n' % len(m) + m][k]
            elif h == b'T' and depth < 3:
                out += _fill(FETCH_ITEMS[nxt() % len(FETCH_ITEMS)], ints,
                             atoms, depth + 1)
            elif h == b'K' and depth < 4:
                out += _fill(SEARCH_ITEMS[nxt() % len(SEARCH_ITEMS)], ints,
                             atoms, depth + 1)
            else:
                out += atom()
        else:
            out += c
            i += 1
    return bytes(out)


def _mutate(line: bytes, ints: list[int]) -> bytes:
    b = bytearray(line)
    for k in range(ints[0] % 4):
        if not b:
            break
        op = ints[(3 * k + 1) % len(ints)] % 6
        p = ints[(3 * k + 2) % len(ints)] % len(b)
        v = ints[(3 * k + 3) % len(ints)] % 256
        if op == 0:
            b[p] = v
        elif op == 1:
            b.insert(p, v)
        elif op == 2:
            del b[p]
        elif op == 3:
            del b[p:]
        elif op == 4:
            b[p:p] = b[:p][-8:]
        else:
            b[p:p] = [b'(', b')', b'"', b'{', b'\\', b' ', b'[', b'&'][v % 8]
    return bytes(b).replace(b'\n', b'').replace(b'\r', b'')


def _line() -> Any:
    ints = st.lists(st.integers(0, 1000), min_size=12, max_size=12)
    atoms = st.lists(gen.nasty_atom(), min_size=4, max_size=4)
    tag = st.sampled_from([b'a', b'a1', b'A.b-c', b'*', b'+', b'', b'a+',
                           b'\xff', b'a}', b'a]', b'1', b'"a"', b'a' * 200])
    tmpl = st.sampled_from(TEMPLATES)
    grammar = st.tuples(tag, tmpl, ints, atoms).map(
        lambda t: t[0] + b' ' + _fill(t[1], t[2], t[3]))
    mutated = st.tuples(tag, tmpl, ints, atoms).map(
        lambda t: _mutate(t[0] + b' ' + _fill(t[1], t[2], [b'x', b'INBOX',
                                                           b'1', b'a b']),
                          t[2]))
    raw = st.binary(max_size=60).map(
        lambda b: b.replace(b'\n', b'').replace(b'\r', b''))
    longline = st.tuples(st.sampled_from([b'a SELECT ', b'a SEARCH ',
                                          b'a FETCH 1 (', b'a LOGIN ',
                                          b'a ', b'']),
                         st.sampled_from([b'(', b'a', b'"', b'&', b'\\',
                                          b'NOT ', b'OR ', b'((', b'1,',
                                          b'BODY[', b'{1+}\r\nx ']),
                         st.sampled_from([100, 1000, 4095, 4097, 20000,
                                          60000])).map(
        lambda t: (t[0] + t[1] * (t[2] // len(t[1])))[:65000])
    eol = st.sampled_from([b'\r\n', b'\r\n', b'\r\n', b'\n', b''])
    return st.tuples(st.one_of(grammar, grammar, grammar, mutated, raw,
                               longline), eol).map(b''.join)


def _sieve_line() -> Any:
    ints = st.lists(st.integers(0, 1000), min_size=12, max_size=12)
    atoms = st.lists(gen.nasty_atom(), min_size=4, max_size=4)
    tmpl = st.sampled_from([
        b'CAPABILITY', b'NOOP', b'NOOP %A', b'LOGOUT', b'STARTTLS',
        b'UNAUTHENTICATE', b'AUTHENTICATE %A', b'AUTHENTICATE "PLAIN" %A',
        b'AUTHENTICATE "PLAIN"', b'HAVESPACE %A %N', b'PUTSCRIPT %A %A',
        b'PUTSCRIPT "x" %L', b'LISTSCRIPTS', b'SETACTIVE %A', b'GETSCRIPT %A',
        b'DELETESCRIPT %A', b'RENAMESCRIPT %A %A', b'CHECKSCRIPT %A',
        b'CHECKSCRIPT %L', b'%A', b'%A %A', b'PUTSCRIPT "x" "keep;"',
        b'PUTSCRIPT "x" "if header :contains \\"a\\" \\"b\\" { discard; }"'])
    grammar = st.tuples(tmpl, ints, atoms).map(
        lambda t: _fill(t[0], t[1], t[2]))
    raw = st.binary(max_size=40).map(
        lambda b: b.replace(b'\n', b'').replace(b'\r', b''))
    return st.tuples(st.one_of(grammar, grammar, raw),
                     st.sampled_from([b'\r\n', b'\r\n', b'\n', b''])).map(
        b''.join)


def strategy(tier: str) -> Any:
    line = _line()
    parse = line.map(lambda d: {'kind': 'parse', 'data': d})
    conts = st.lists(st.one_of(gen.nasty_atom(), st.just(b'*'),
                               st.just(b'AGFsaWNlAHB3YWxpY2U='),
                               st.sampled_from([b'AP8A/g==', b'//4=', b'/w==',
                                                b'AGFsaWNlAP8=', b'='])),
                     max_size=3)
    # either arbitrary follow-up lines or a run of lines that are all
    # answered BAD, failed SASL exchanges among them (the consecutive-BAD
    # limit is 5)
    badrun = st.lists(st.sampled_from([
        b'x BOGUS\r\n', b'x AUTHENTICATE PLAIN\r\n', b'xx AUTHENTICATE LOGIN\r\n',
        b'\r\n', b'x LOGIN\r\n', b'x AUTHENTICATE PLAIN =\r\n',
        b'xyz AUTHENTICATE PLAIN\r\n']), min_size=4, max_size=7)
    more = st.one_of(st.lists(line, max_size=6), st.lists(line, max_size=6),
                     badrun)
    wire = st.tuples(line, st.integers(0, 2), conts, more,
                     st.sampled_from([False, False, False, True])).map(
        lambda t: {'kind': 'wire', 'data': t[0], 'state': t[1],
                   'conts': t[2], 'more': t[3], 'eof': t[4]})
    message = st.tuples(gen.any_message(),
                        st.sampled_from(['dict', 'dict', 'dict',
                                         'maildir'])).map(
        lambda t: {'kind': 'message', 'msg': t[0], 'backend': t[1]})
    sieve = st.tuples(_sieve_line(), st.integers(0, 1)).map(
        lambda t: {'kind': 'sieve', 'data': t[0], 'state': t[1]})
    return st.one_of(parse, parse, parse, parse, wire, wire, message, sieve)


# -- coverage-guided part (harness/fuzz.py) ----------------------------------------------

FUZZ = {'quick': (1500, 4), 'thorough': (60000, 16)}
FUZZ_MAX_LEN = 1500
FUZZ_TIMEOUT = 200
_SEP = b'\xfe\xfe'


def fuzz_decode(data: bytes) -> Any:
    """byte 0 picks the tier and state, the rest is the payload; wire cases
    split at 0xfe 0xfe into the first line and follow-up lines"""
    if len(data) < 2:
        return None
    sel, rest = data[0], data[1:]
    k = sel % 8
    if k <= 2:
        return {'kind': 'parse', 'data': rest}
    if k <= 5:
        parts = rest.split(_SEP)
        more = [p if p.endswith(b'\n') else p + b'\r\n' for p in parts[1:4]]
        return {'kind': 'wire', 'data': parts[0], 'state': (sel >> 3) % 3,
                'conts': [b'AGFsaWNlAHB3YWxpY2U=', b'*'][:(sel >> 5) % 3],
                'more': more, 'eof': bool(sel & 0x80)}
    if k == 6:
        return {'kind': 'message', 'msg': rest, 'backend': 'dict'}
    return {'kind': 'sieve', 'data': rest, 'state': (sel >> 3) % 2}


def fuzz_seeds() -> list[bytes]:
    lines = [
        b'a LOGIN alice pwalice\r\n', b'a LOGIN {5+}\r\nalice "pwalice"\r\n',
        b'a AUTHENTICATE PLAIN\r\n', b'a AUTHENTICATE PLAIN AGFsaWNlAHB3YWxpY2U=\r\n',
        b'a CAPABILITY\r\n', b'a ID ("name" "x" "version" NIL)\r\n',
        b'a STARTTLS\r\n', b'a SELECT INBOX\r\n', b'a EXAMINE "INBOX"\r\n',
        b'a CREATE a/b/c\r\n', b'a DELETE a\r\n', b'a RENAME a b\r\n',
        b'a SUBSCRIBE a\r\n', b'a LIST "" *\r\n', b'a LIST "a/" "%/%"\r\n',
        b'a LSUB "" "*"\r\n',
        b'a STATUS INBOX (MESSAGES RECENT UIDNEXT UIDVALIDITY UNSEEN)\r\n',
        b'a APPEND INBOX (\\Seen $x) "01-Jan-2020 00:00:00 +0000" {4+}\r\nA: b\r\n',
        b'a APPEND INBOX {1+}\r\nx (\\Seen) {1+}\r\ny\r\n',
        b'a CHECK\r\n', b'a CLOSE\r\n', b'a EXPUNGE\r\n', b'a UID EXPUNGE 1:*\r\n',
        b'a SEARCH CHARSET UTF-8 OR (NOT SEEN) HEADER Subject {1+}\r\nx BEFORE 1-Jan-2020 UID 1:* LARGER 5\r\n',
        b'a UID SEARCH RETURN (MIN MAX) ALL\r\n',
        b'a FETCH 1:* (FLAGS UID ENVELOPE BODYSTRUCTURE BODY.PEEK[1.HEADER.FIELDS (To Cc)]<0.10> BINARY.SIZE[1] RFC822.SIZE INTERNALDATE)\r\n',
        b'a UID FETCH 1,3:*,2 FULL\r\n', b'a FETCH * BODY[TEXT]\r\n',
        b'a STORE 1 +FLAGS.SILENT (\\Deleted \\Flagged kw)\r\n',
        b'a UID STORE 1:* -FLAGS \\Seen\r\n', b'a COPY 1 INBOX\r\n',
        b'a UID MOVE 1:* Trash\r\n', b'a IDLE\r\n', b'a NOOP\r\n',
        b'a LOGOUT\r\n', b'a UNSELECT\r\n', b'DONE\r\n',
    ]
    seeds = []
    for i, ln in enumerate(lines):
        seeds.append(bytes([i % 3]) + ln)                     # parse
        seeds.append(bytes([3 + i % 3 + 8 * (i % 3)]) + ln)   # wire, state i%3
        seeds.append(bytes([3 + 16]) + ln + _SEP + b'b NOOP')  # selected + more
    seeds.append(bytes([3 + 16 + 0x80]) + b'a APPEND INBOX {10+}\r\nabc')
    for m in (b'Subject: x\r\nFrom: a@b, "c d" <e@f>\r\nDate: Mon, 1 Jan 2001 00:00:00 +0000\r\n\r\nbody\r\n',
              b'Content-Type: multipart/mixed; boundary=b\r\n\r\n--b\r\nContent-Type: text/plain; charset=utf-8\r\nContent-Transfer-Encoding: base64\r\n\r\naGk=\r\n--b\r\nContent-Type: message/rfc822\r\n\r\nSubject: in\r\n\r\nx\r\n--b--\r\n',
              b'Content-Type: message/rfc822\r\n\r\nContent-Type: text/html\r\nContent-Disposition: attachment; filename="a"\r\n\r\n<p>\r\n',
              b'Subject: =?utf-8?b?w6k=?=\r\nReferences: <a@b> <c@d>\r\nIn-Reply-To: <a@b>\r\nMessage-Id: <e@f>\r\nContent-Transfer-Encoding: quoted-printable\r\n\r\n=C3=A9=\r\n'):
        seeds.append(bytes([6]) + m)
    for s in (b'CAPABILITY\r\n', b'AUTHENTICATE "PLAIN" "AGFsaWNlAHB3YWxpY2U="\r\n',
              b'PUTSCRIPT "a" {5+}\r\nkeep;\r\n', b'LISTSCRIPTS\r\n',
              b'SETACTIVE "a"\r\n', b'GETSCRIPT "a"\r\n',
              b'RENAMESCRIPT "a" "b"\r\n', b'HAVESPACE "a" 100\r\n',
              b'CHECKSCRIPT "keep;"\r\n', b'DELETESCRIPT "a"\r\n',
              b'LOGOUT\r\n', b'UNAUTHENTICATE\r\n'):
        seeds.append(bytes([7 + 8]) + s)
        seeds.append(bytes([7]) + s)
    return seeds


FUZZ_DICT = [w + b' ' for w in sorted(_COMMAND_WORDS)] + [
    b'\r\n', b'{3+}\r\n', b'{0+}\r\n', b'{3}\r\n', b'~{3+}\r\n', b'BODY[',
    b'BODY.PEEK[', b'BINARY[', b'HEADER.FIELDS (', b'HEADER.FIELDS.NOT (',
    b'.MIME]', b'.TEXT]', b'<0.1>', b'CHARSET ', b'UTF-8', b'1:*', b'*',
    b'INBOX', b'\\Seen', b'\\Deleted', b'+FLAGS', b'-FLAGS.SILENT', b'"',
    b'(', b')', b'NIL', b'OR ', b'NOT ', b'HEADER ', b'BEFORE 1-Jan-2020',
    b'KEYWORD ', b'UID ', b'RETURN (', _SEP, b'&AOk-', b'&-', b'%',
    b'Content-Type: ', b'multipart/mixed; boundary=', b'message/rfc822',
    b'Content-Transfer-Encoding: ', b'base64', b'quoted-printable',
    b'Content-Disposition: ', b'=?utf-8?q?', b'?=', b'Subject: ', b'From: ',
    b'Date: ', b'--b\r\n', b'--b--\r\n', b'\r\n\r\n', b'charset=',
    b'PUTSCRIPT ', b'SETACTIVE ', b'RENAMESCRIPT ', b'"PLAIN" ']
