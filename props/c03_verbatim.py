"""C03 - message bytes are stored and returned verbatim.

mime tier: MessageContent.parse(b) must reproduce b (whole, header+body, and
every nested part as a slice of its parent's body).
wire tier: APPEND b, then FETCH RFC822.SIZE / BODY[] / RFC822 / BODY[HEADER] /
BODY[TEXT] / BODY[]<o.n> / BODYSTRUCTURE and BODY[p], BODY[p.MIME] for every
leaf p; then the same on the copies made by COPY and MOVE. dict and maildir.
"""
from __future__ import annotations

import hashlib
import re
import shutil
import tempfile
from typing import Any

from hypothesis import strategies as st

from harness import gen
from harness.runner import CaseOut
from harness.wire import parse_stream, WireError

ID = 'C03'
LEVEL = 'exploration'
RULE = ('cases = (tier, backend, message bytes b from raw binary / line '
        'grammar / MIME grammar / tiled large blocks, partial range (o,n)). '
        'Non-trivial = b has no header/body separator, or no final newline, '
        'or a bare CR or LF, NUL, 8-bit bytes, a whitespace-only last line, '
        'or nested MIME; distinct by SHA-1 of b (+tier/backend).')
ASSUMPTIONS = ['b is sent as a literal in one of the four spellings {n+} {n} '
               '~{n+} ~{n}; zero-length b is '
               'not generated (APPEND treats it as cancellation, RFC 3502)',
               'sizes above a few KiB are built by tiling generated blocks']
BUDGET = {'quick': (400, 16), 'thorough': (12000, 16)}


def strategy(tier: str) -> Any:
    big = st.tuples(gen.line_message(3, 3), st.sampled_from(
        [b'x' * 100 + b'\r\n', b'\x00\xff' * 50, b'line\n', b'a\rb\r\n']),
        st.sampled_from([40, 41, 655, 656])).map(
        lambda t: (t[0] + t[1] * t[2])[:65000])
    msg = st.one_of(gen.any_message(), gen.any_message(), gen.line_message(),
                    gen.mime_message(), big).filter(lambda b: len(b) > 0)
    rng = st.tuples(st.integers(0, 300), st.integers(1, 300))
    mime = st.tuples(msg).map(lambda t: {'tier': 'mime', 'msg': t[0]})
    # 'pair': a second, different message is stored first and kept. 'dup' =
    # the same bytes again (content de-duplication path), 'adler' = a sibling
    # of equal length and equal Adler-32 (the dict backend keys its content
    # cache on zlib.adler32: b+'abba' and b+'baab' collide for every b),
    # 'other' = an unrelated message.
    # 'form': how the literal is announced (non-synchronising, synchronising,
    # and the two literal8 spellings of RFC 3516)
    wire = st.tuples(msg, st.sampled_from(['dict', 'dict', 'dict', 'maildir',
                                           'maildir', 'maildir-threads']),
                     rng, st.sampled_from(['none', 'none', 'dup', 'adler',
                                           'adler', 'other']),
                     st.sampled_from(['{n+}', '{n+}', '{n}', '~{n+}',
                                      '~{n}'])).map(
        lambda t: {'tier': 'wire', 'msg': t[0], 'backend': t[1],
                   'range': list(t[2]), 'pair': t[3], 'form': t[4]})
    return st.one_of(mime, mime, wire)


def _nontrivial(b: bytes) -> bool:
    if b'\r\n\r\n' not in b and b'\n\n' not in b:
        return True
    if not b.endswith(b'\n'):
        return True
    if re.search(rb'\r(?!\n)|(?<!\r)\n|\x00|[\x80-\xff]', b):
        return True
    last = b.rsplit(b'\n', 1)[-1]
    if last and not last.strip():
        return True
    return b'multipart/' in b.lower() or b'message/rfc822' in b.lower()


# -- mime tier ------------------------------------------------------------------

def _check_mime(b: bytes, out: CaseOut) -> None:
    from pymap.mime import MessageContent
    try:
        c = MessageContent.parse(b)
    except Exception as exc:     # totality is C06's; count it here
        out.label('mime-parse-raises:' + type(exc).__name__)
        return

    def walk(part: Any, depth: int, path: str) -> None:
        raw = bytes(part)
        hb = bytes(part.header) + bytes(part.body)
        if hb != raw:
            out.fail('mime-header-plus-body-differs',
                     f'part {path or "top"} of {b[:200]!r}: header+body = '
                     f'{hb[:120]!r} but part = {raw[:120]!r}')
        if len(part) != len(raw):
            out.fail('mime-len-differs',
                     f'part {path or "top"}: len() = {len(part)} but '
                     f'{len(raw)} bytes')
        if depth > 6:
            return
        body = bytes(part.body)
        pos = 0
        for i, sub in enumerate(part.body.nested):
            sraw = bytes(sub)
            at = body.find(sraw, pos) if sraw else pos
            if at < 0:
                out.fail('mime-nested-part-not-a-slice',
                         f'part {path}{i + 1} = {sraw[:120]!r} is not a slice '
                         f'of its parent body (after offset {pos}) in '
                         f'{b[:200]!r}')
                return
            pos = at + len(sraw)
            walk(sub, depth + 1, f'{path}{i + 1}.')
    top = bytes(c)
    if top != b:
        sig = 'mime-roundtrip-differs'
        if top == b[:-1]:
            sig = 'mime-roundtrip-drops-last-byte'
        out.fail(sig, f'MessageContent.parse({b[:300]!r}) serialises as '
                 f'{top[:300]!r} ({len(top)} vs {len(b)} bytes)')
        return
    if len(c) != len(b):
        out.fail('mime-len-differs', f'len() = {len(c)} for {len(b)} bytes')
    walk(c, 0, '')


# -- wire tier ------------------------------------------------------------------

def _lit(t: Any) -> bytes | None:
    return None if t is None else t.string()


def _leaves(body: dict[str, Any], path: tuple[int, ...] = ()) -> Any:
    """(path, announced octets) for every non-multipart part."""
    if 'multipart' in body:
        for i, p in enumerate(body['parts']):
            yield from _leaves(p, path + (i + 1,))
    else:
        yield (path or (1,)), body['octets']
        if 'body' in body and len(path) < 4:   # message/rfc822: descend
            inner = body['body']
            if 'multipart' in inner:
                yield from _leaves(inner, path or (1,))
            else:
                yield (path or (1,)) + (1,), inner['octets']


def _fetch(conn: Any, tagn: list[int], items: bytes, out: CaseOut,
           what: str) -> dict[bytes, Any] | None:
    tagn[0] += 1
    tag = b'f%d' % tagn[0]
    raw = conn.cmd(tag + b' FETCH 1 (' + items + b')\r\n')
    try:
        resps = parse_stream(raw)
    except WireError as exc:
        out.label('unparseable-response')   # C07's business
        out.counters['unparseable'] = 1
        return None
    for r in resps:
        if r.kind == 'untagged' and r.name == b'FETCH':
            return r.data
    out.label('no-fetch-data:' + what)
    return None


def _check_mailbox(conn: Any, tagn: list[int], b: bytes, rng: list[int],
                   out: CaseOut, where: str, maildir_known: bool) -> None:
    o, n = rng
    data = _fetch(conn, tagn, b'RFC822.SIZE BODY.PEEK[] RFC822 '
                  b'BODY.PEEK[HEADER] BODY.PEEK[TEXT] BODY.PEEK[]<%d.%d> '
                  b'BODYSTRUCTURE' % (o, n), out, where)
    if data is None:
        return
    desc = f'{where}: b={b[:200]!r} ({len(b)} bytes)'
    full = _lit(data.get(b'BODY[]'))
    if full != b:
        sig = 'body-differs'
        if full == b[:-1]:
            sig = 'body-drops-last-byte'
        elif full is not None and full == b.replace(b'\r\n', b'\n'):
            sig = 'body-crlf-rewritten-to-lf'
        out.fail(f'{sig}:{where.split(":")[0]}',
                 f'{desc}: BODY[] = {None if full is None else full[:200]!r}')
        return
    if _lit(data.get(b'RFC822')) != b:
        out.fail('rfc822-differs', f'{desc}: RFC822 = '
                 f'{_lit(data.get(b"RFC822"))!r:.200}')
    if data.get(b'RFC822.SIZE') != len(b):
        out.fail('rfc822-size-wrong', f'{desc}: RFC822.SIZE = '
                 f'{data.get(b"RFC822.SIZE")}')
    hdr, txt = _lit(data.get(b'BODY[HEADER]')), _lit(data.get(b'BODY[TEXT]'))
    if (hdr or b'') + (txt or b'') != b:
        out.fail('header-plus-text-differs',
                 f'{desc}: BODY[HEADER] = {hdr!r:.150} BODY[TEXT] = '
                 f'{txt!r:.150}')
    part = _lit(data.get(b'BODY[]<%d>' % o))
    want = b[o:o + n]
    if (part or b'') != want:
        out.fail('partial-differs',
                 f'{desc}: BODY[]<{o}.{n}> = {part!r:.150}, expected '
                 f'{want!r:.150}')
    bs = data.get(b'BODYSTRUCTURE')
    if not isinstance(bs, dict):
        return
    leaves = list(_leaves(bs))[:6]
    if not leaves:
        return
    items = b' '.join(b'BODY.PEEK[%s] BODY.PEEK[%s.MIME]' % (
        b'.'.join(b'%d' % x for x in p), b'.'.join(b'%d' % x for x in p))
        for p, _ in leaves)
    pdata = _fetch(conn, tagn, items, out, where + ' parts')
    if pdata is None:
        return
    for p, octets in leaves:
        ps = b'.'.join(b'%d' % x for x in p)
        body = _lit(pdata.get(b'BODY[%s]' % ps)) or b''
        mime = _lit(pdata.get(b'BODY[%s.MIME]' % ps)) or b''
        if octets == len(body):
            continue
        if octets == len(mime) + len(body) or (p == (1,)
                                               and octets == len(b)):
            out.fail('bodystructure-size-includes-part-header',
                     f'{desc}: part {ps.decode()} announced {octets} octets, '
                     f'BODY[{ps.decode()}] returns {len(body)} (the '
                     f'announced number counts the part header too)')
        else:
            out.fail('bodystructure-size-wrong',
                     f'{desc}: part {ps.decode()} announced {octets} octets, '
                     f'BODY[{ps.decode()}] returns {len(body)}, '
                     f'BODY[{ps.decode()}.MIME] {len(mime)}')


def _check_wire(case: dict[str, Any], out: CaseOut) -> None:
    from harness.servers import dict_sim, maildir_sim
    b = case['msg']
    backend = case['backend']
    tmp = None
    if backend == 'dict':
        sim = dict_sim()
    else:
        tmp = tempfile.mkdtemp(prefix='c03-')
        sim = maildir_sim(tmp, threads=backend == 'maildir-threads')
    try:
        conn = sim.connect()
        conn.take()
        assert b'a0 OK' in conn.cmd(b'a0 LOGIN alice pwalice\r\n')
        conn.cmd(b'a1 CREATE Other\r\n')
        conn.cmd(b'a1 CREATE Third\r\n')
        pair = case.get('pair', 'none')
        first = None
        if pair == 'adler':
            first, b = b + b'abba', b + b'baab'
        elif pair == 'dup':
            first = b
        elif pair == 'other':
            first = b'Subject: first\r\n\r\nanother message\r\n'
        if first is not None:
            out.label('pair:' + pair)
            got = conn.cmd(b'a1 APPEND Third {%d+}\r\n' % len(first) + first
                           + b'\r\n')
            if b'a1 OK' not in got:
                out.label('append-refused')
                return
        form = case.get('form', '{n+}')
        out.label('literal:' + form)
        head = b'a2 APPEND INBOX ' + form.replace(
            'n', str(len(b))).encode() + b'\r\n'
        if form.endswith('+}'):
            got = conn.cmd(head + b + b'\r\n')
        else:
            got = conn.cmd(head)
            if not got.startswith(b'+ '):
                out.label('append-refused')
                return
            got = conn.cmd(b + b'\r\n')
        if b'a2 OK' not in got:
            out.label('append-refused')
            return
        tagn = [0]
        if first is not None:
            conn.cmd(b'a3 SELECT Third\r\n')
            _check_mailbox(conn, tagn, first, case['range'], out,
                           f'{backend}:first-of-pair', False)
            if out.failures:
                return
            conn.cmd(b'a3 STORE 1 +FLAGS.SILENT (\\Deleted)\r\n')
            conn.cmd(b'a3 CLOSE\r\n')
        conn.cmd(b'a3 SELECT INBOX\r\n')
        _check_mailbox(conn, tagn, b, case['range'], out,
                       f'{backend}:appended', False)
        if out.failures:
            return
        if b'a4 OK' not in conn.cmd(b'a4 COPY 1 Other\r\n'):
            out.label('copy-refused')
            return
        conn.cmd(b'a5 SELECT Other\r\n')
        _check_mailbox(conn, tagn, b, case['range'], out,
                       f'{backend}:copy', False)
        if b'a6 OK' not in conn.cmd(b'a6 MOVE 1 Third\r\n'):
            out.label('move-refused')
            return
        conn.cmd(b'a7 SELECT Third\r\n')
        _check_mailbox(conn, tagn, b, case['range'], out,
                       f'{backend}:moved', False)
    finally:
        sim.close()
        if tmp:
            shutil.rmtree(tmp, ignore_errors=True)


def run_case(case: dict[str, Any]) -> CaseOut:
    out = CaseOut()
    b = case['msg']
    out.label(case['tier'])
    if case['tier'] == 'mime':
        _check_mime(b, out)
    else:
        out.label(case['backend'])
        _check_wire(case, out)
    if len(b) > 4096:
        out.label('larger-than-4KiB')
    if _nontrivial(b):
        out.nontrivial = hashlib.sha1(
            b + case['tier'].encode()
            + case.get('backend', '').encode()).hexdigest()[:16]
    out.sample = {'tier': case['tier'], 'backend': case.get('backend'),
                  'msg': b[:160], 'len': len(b), 'range': case.get('range')}
    return out


# -- coverage-guided part (harness/fuzz.py) ----------------------------------------------

FUZZ = {'quick': (3000, 4), 'thorough': (200000, 16)}
FUZZ_MAX_LEN = 3000
FUZZ_DICT = gen.FUZZ_MIME_DICT


def fuzz_decode(data: bytes) -> Any:
    """byte 0: tier (3 of 4 mime - in-process -, 1 of 4 a full wire case on
    dict) and the literal spelling; bytes 1-2 the partial-fetch range"""
    if len(data) < 4:
        return None
    sel, a, b, msg = data[0], data[1], data[2], data[3:]
    if sel % 4:
        return {'tier': 'mime', 'msg': msg}
    return {'tier': 'wire', 'msg': msg, 'backend': 'dict',
            'range': [a, 1 + b], 'pair': 'none',
            'form': ['{n+}', '{n}', '~{n+}', '~{n}'][(sel >> 2) % 4]}


def fuzz_seeds() -> list[bytes]:
    out = []
    for i, m in enumerate(gen.FUZZ_MESSAGES):
        out.append(bytes([1, 0, 0]) + m)
        out.append(bytes([4 * (i % 4), i, 7]) + m)
    return out
