"""C19 - ManageSieve: no script access before login; the script store is a map.

Generated programs over the whole ManageSieve command set for two users:
script commands before authentication (must be refused and touch nothing),
PUTSCRIPT / GETSCRIPT / LISTSCRIPTS / SETACTIVE / DELETESCRIPT /
RENAMESCRIPT / HAVESPACE / CHECKSCRIPT with arbitrary names and bodies,
UNAUTHENTICATE and re-login as the other user. Oracle: a dictionary model
per user (name -> bytes, at most one active name).
"""
from __future__ import annotations

import base64
import logging
import re
from typing import Any

from hypothesis import strategies as st

from harness.runner import CaseOut, case_hash

logging.disable(logging.CRITICAL)

ID = 'C19'
LEVEL = 'exploration'
RULE = ('cases = program of <= 30 steps (op, raw ints) over the ManageSieve '
        'command set with script names (UTF-8, quotes, backslashes, long, '
        'empty) and script bodies (arbitrary bytes up to the 4096-byte '
        'string limit, quoted or literal) for users alice and bob. '
        'Non-trivial = the program contains a script command issued before '
        'authentication, a delete/rename touching the active script, or a '
        'user switch; distinct by case hash.')
ASSUMPTIONS = ['script bodies are not required to be valid Sieve (the '
               'listener does not validate on PUTSCRIPT; not part of the '
               'statement)',
               'names are valid UTF-8, incl. CR/LF/NUL (sent as literals); RENAMESCRIPT onto '
               'itself may answer OK or NO']
BUDGET = {'quick': (250, 16), 'thorough': (6000, 16)}
CASE_CPU_BUDGET = 20.0

NAMES = ['a', 'b', 'c', 'main', 'x y', 'q"t', 'b\\s', 'é', '中文', 'N' * 200,
         '', 'A', 'a ', '{5}', 'ACTIVE', 'n{2+}', 'a\r\nb', 'n\x00l', 'l\nf']
BODIES = [b'keep;', b'', b'discard;\r\n', b'if true { keep; }',
          b'\x00\x01\xff', b'"quoted" \\back', b'x' * 4096, b'line1\nline2',
          b'# comment\r\nrequire "fileinto";\r\nfileinto "x";\r\n', b'\r\n',
          b'{3}', b'OK\r\n', b'x' * 4000, b'keep; # {3+}', b'{0+}',
          b'a\r\n{1+}']
OPS = ['put'] * 5 + ['setactive'] * 4 + ['delete'] * 4 + ['rename'] * 4 + [
    'get', 'get', 'list', 'havespace', 'check', 'noop', 'capability',
    'unauth', 'login-alice', 'login-alice', 'login-bob', 'login-bob',
    'login-bad']


def strategy(tier: str) -> Any:
    r = st.integers(0, 60)
    # names are drawn mostly from the first few so that later commands hit
    # scripts that exist; most programs start authenticated
    nm = st.one_of(st.integers(0, 2), st.integers(0, 2), st.integers(0, 5), r)
    step = st.tuples(st.sampled_from(OPS), nm, nm, r).map(list)
    start = st.sampled_from([[], [['login-alice', 0, 0, 0]],
                             [['login-alice', 0, 0, 0]],
                             [['login-bob', 0, 0, 0]],
                             [['put', 0, 0, 0], ['login-alice', 0, 0, 0]]])
    return st.tuples(start, st.lists(step, min_size=1, max_size=30)).map(
        lambda t: {'prog': t[0] + t[1]})


def _q(v: bytes, k: int) -> bytes:
    """spell a string: quoted when possible (k even), else literal"""
    if k % 2 == 0 and b'\r' not in v and b'\n' not in v and b'\x00' not in v:
        return b'"' + v.replace(b'\\', b'\\\\').replace(b'"', b'\\"') + b'"'
    return b'{%d+}\r\n' % len(v) + v


class _Resp:
    def __init__(self, raw: bytes) -> None:
        self.raw = raw
        self.items: list[tuple[bytes, bool]] = []   # (string, ACTIVE?)
        self.cond: bytes | None = None
        self.malformed: str | None = None
        self._parse()

    def _parse(self) -> None:
        d = self.raw
        p = 0
        while p < len(d):
            m = re.match(rb'(OK|NO|BYE)( \([^)\r\n]*\))?( "(?:[^"\\\r\n]|\\.)*"'
                         rb'| \{\d+\}\r\n)?', d[p:])
            if m and d[p + m.end():p + m.end() + 2] == b'\r\n' or (
                    m and m.group(3) and m.group(3).startswith(b' {')):
                self.cond = m.group(1)
                return
            if d[p:p + 1] == b'"':
                q = p + 1
                val = bytearray()
                while q < len(d) and d[q:q + 1] != b'"':
                    if d[q:q + 1] == b'\\':
                        q += 1
                    if d[q:q + 1] in (b'\r', b'\n'):
                        self.malformed = 'CR/LF in quoted string'
                        return
                    val += d[q:q + 1]
                    q += 1
                p = q + 1
                s = bytes(val)
            elif d[p:p + 1] == b'{':
                m2 = re.match(rb'\{(\d+)\+?\}\r\n', d[p:])
                if not m2:
                    self.malformed = 'bad literal header'
                    return
                n = int(m2.group(1))
                s = d[p + m2.end():p + m2.end() + n]
                if len(s) != n:
                    self.malformed = 'literal shorter than announced'
                    return
                p += m2.end() + n
            else:
                self.malformed = f'unexpected byte at {p}: {d[p:p + 20]!r}'
                return
            active = False
            if d[p:p + 7].upper() == b' ACTIVE':
                active = True
                p += 7
            # capability lines: "NAME" "value"
            if d[p:p + 2] == b' "':
                q = d.find(b'\r\n', p)
                p = q if q >= 0 else len(d)
            if d[p:p + 2] != b'\r\n':
                self.malformed = f'expected CRLF at {p}: {d[p:p + 20]!r}'
                return
            p += 2
            self.items.append((s, active))
        self.malformed = 'no completion line'


def run_case(case: dict[str, Any]) -> CaseOut:
    from harness.servers import dict_sim, USERS
    out = CaseOut()
    nt = False
    with dict_sim(sieve=True) as sim:
        conn = sim.connect('sieve')
        conn.take()
        models: dict[str, dict[str, Any]] = {
            'alice': {'scripts': {}, 'active': None},
            'bob': {'scripts': {}, 'active': None}}
        user: str | None = None
        ever_auth = False

        def send(data: bytes) -> _Resp:
            return _Resp(conn.cmd(data + b'\r\n'))

        def check_store(who: str, where: str) -> bool:
            """LISTSCRIPTS + GETSCRIPT of everything vs the model"""
            m = models[who]
            r = send(b'LISTSCRIPTS')
            if r.malformed or r.cond != b'OK':
                out.fail('listscripts-malformed-or-refused',
                         f'{where}: {r.raw[:200]!r} ({r.malformed})')
                return False
            got = {s.decode('utf-8', 'replace'): a for s, a in r.items}
            if set(got) != set(m['scripts']) or len(r.items) != len(got):
                out.fail('listscripts-differs-from-model',
                         f'{where}: user {who} lists {sorted(got)}, model '
                         f'{sorted(m["scripts"])}')
                return False
            act = sorted(n for n, a in got.items() if a)
            if act != ([m['active']] if m['active'] is not None else []):
                out.fail('active-mark-differs-from-model',
                         f'{where}: ACTIVE on {act}, model {m["active"]!r}')
                return False
            for n, data in m['scripts'].items():
                g = send(b'GETSCRIPT ' + _q(n.encode(), 1))
                if g.malformed or g.cond != b'OK' or len(g.items) != 1 \
                        or g.items[0][0] != data:
                    out.fail('getscript-differs-from-put',
                             f'{where}: GETSCRIPT {n!r} -> {g.raw[:120]!r}, '
                             f'put {data[:60]!r} ({len(data)} bytes)')
                    return False
            return True

        for step in case['prog']:
            if out.failures or conn.done:
                break
            op, a, b, k = step
            name = NAMES[a % len(NAMES)]
            name2 = NAMES[b % len(NAMES)]
            body = BODIES[b % len(BODIES)]
            nb = name.encode()
            where = f'{op} {name!r}'
            if op.startswith('login'):
                who = op.split('-')[1]
                pw = USERS[who][0] if who != 'bad' else 'wrong'
                cid = who if who != 'bad' else 'alice'
                blob = base64.b64encode(b'\x00%s\x00%s' % (cid.encode(),
                                                           pw.encode()))
                r = send(b'AUTHENTICATE "PLAIN" "%s"' % blob)
                if user is None and r.cond == b'OK' and who != 'bad':
                    if ever_auth:
                        nt = True
                        out.label('user-switch')
                    user = who
                    ever_auth = True
                    if not check_store(user, 'after login as ' + who):
                        break
                elif r.cond == b'OK' and (who == 'bad' or user is not None):
                    out.fail('authenticate-accepted-unexpectedly',
                             f'{op} while user={user!r} -> {r.raw!r}')
                continue
            if op == 'unauth':
                r = send(b'UNAUTHENTICATE')
                if user is not None:
                    if r.cond != b'OK':
                        out.fail('unauthenticate-refused', repr(r.raw))
                    user = None
                continue
            if op in ('noop', 'capability'):
                r = send(b'NOOP' if op == 'noop' else b'CAPABILITY')
                if r.cond != b'OK' or r.malformed:
                    out.fail(f'{op}-refused-or-malformed',
                             f'{r.raw[:200]!r} ({r.malformed})')
                continue
            # decode names relative to the model so that commands hit
            # existing scripts and the active one, not only by coincidence
            if user is not None and op in ('get', 'setactive', 'delete',
                                           'rename'):
                mm = models[user]
                have = sorted(mm['scripts'])
                if have and a % 4:
                    name = have[a % len(have)]
                if mm['active'] is not None and op in ('delete', 'rename') \
                        and a % 3 == 0:
                    name = mm['active']
                nb = name.encode()
                where = f'{op} {name!r}'
            # script commands
            if op == 'put':
                wire = b'PUTSCRIPT ' + _q(nb, k) + b' ' + _q(body, k // 2)
            elif op == 'get':
                wire = b'GETSCRIPT ' + _q(nb, k)
            elif op == 'list':
                wire = b'LISTSCRIPTS'
            elif op == 'setactive':
                wire = b'SETACTIVE ' + _q(nb, k)
            elif op == 'delete':
                wire = b'DELETESCRIPT ' + _q(nb, k)
            elif op == 'rename':
                wire = b'RENAMESCRIPT ' + _q(nb, k) + b' ' + _q(
                    name2.encode(), k // 2)
            elif op == 'havespace':
                wire = b'HAVESPACE ' + _q(nb or b'x', k) + b' %d' % (b * 100)
            else:
                wire = b'CHECKSCRIPT ' + _q(body, k)
            r = send(wire)
            if r.malformed:
                out.fail('malformed-response', f'{where}: {r.raw[:200]!r} '
                         f'({r.malformed})')
                break
            if user is None:
                nt = True
                out.label('script-command-before-authentication')
                if r.cond == b'OK':
                    out.fail(f'script-command-accepted-before-login:{op}',
                             f'{wire[:80]!r} -> {r.raw[:120]!r}')
                elif r.items:
                    out.fail(f'script-data-leaked-before-login:{op}',
                             f'{wire[:80]!r} -> {r.raw[:120]!r}')
                continue
            m = models[user]
            sc = m['scripts']
            okd = r.cond == b'OK'
            if op == 'put':
                if name == '':
                    if okd:
                        out.fail('put-with-empty-name-accepted', repr(r.raw))
                elif len(body) > 4096:
                    pass
                elif not okd:
                    out.fail('put-refused', f'{where}: {r.raw[:120]!r}')
                else:
                    sc[name] = body
            elif op == 'get':
                if name in sc:
                    if not okd or len(r.items) != 1 or \
                            r.items[0][0] != sc[name]:
                        out.fail('getscript-differs-from-put',
                                 f'{where}: {r.raw[:120]!r}, put '
                                 f'{sc[name][:60]!r}')
                elif okd:
                    out.fail('get-of-missing-accepted', f'{where}: '
                             f'{r.raw[:120]!r}')
            elif op == 'list':
                pass     # compared in check_store below
            elif op == 'setactive':
                if name == '':
                    if not okd:
                        out.fail('setactive-empty-refused', repr(r.raw))
                    else:
                        m['active'] = None
                elif name in sc:
                    if not okd:
                        out.fail('setactive-refused', f'{where}: {r.raw!r}')
                    else:
                        m['active'] = name
                elif okd:
                    out.fail('setactive-of-missing-accepted',
                             f'{where}: {r.raw!r}')
            elif op == 'delete':
                if name in sc and name == m['active']:
                    nt = True
                    out.label('delete-active')
                    if okd:
                        out.fail('active-script-deleted', f'{where}')
                        del sc[name]
                        m['active'] = None
                elif name in sc:
                    if not okd:
                        out.fail('delete-refused', f'{where}: {r.raw!r}')
                    else:
                        del sc[name]
                elif okd:
                    out.fail('delete-of-missing-accepted', f'{where}')
            elif op == 'rename':
                if name in sc and name == m['active']:
                    nt = True
                    out.label('rename-active')
                if name not in sc or name2 == '':
                    if okd:
                        out.fail('rename-must-be-refused',
                                 f'{where} -> {name2!r}: {r.raw!r}')
                elif name2 == name:
                    pass           # OK or NO, nothing changes either way
                elif name2 in sc:
                    if okd:
                        out.fail('rename-onto-existing-accepted',
                                 f'{where} -> {name2!r}')
                elif not okd:
                    out.fail('rename-refused', f'{where} -> {name2!r}: '
                             f'{r.raw!r}')
                else:
                    sc[name2] = sc.pop(name)
                    if m['active'] == name:
                        m['active'] = name2
            if out.failures:
                break
            if op in ('put', 'delete', 'rename', 'setactive', 'list'):
                if not check_store(user, 'after ' + where):
                    break
                # the other user's store is untouched: verified when (and
                # only when) the program logs in as that user, see above
    out.counters['commands'] = len(case['prog'])
    if nt:
        out.nontrivial = case_hash(case)
    out.sample = {'prog': [[s[0], NAMES[s[1] % len(NAMES)][:12]]
                           for s in case['prog'][:12]]}
    return out
