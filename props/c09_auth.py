"""C09 - authentication and authorization are sound.

Sequences of up to 8 authentication attempts (LOGIN in every spelling,
AUTHENTICATE PLAIN / LOGIN / unknown mechanisms with correct, wrong,
malformed, cancelled, empty and oversized responses, authzid equal /
different / unknown) interleaved with probes, under TLS-required or not and
local or remote peer; IMAP on dict and maildir, ManageSieve on dict.

Oracle: an independent credential model (it knows the users, passwords and
roles it provisioned). Soundness only: the connection may be authenticated
after an attempt only if the model allows it, the identity in effect is then
exactly the authorized one, LOGIN never succeeds while LOGINDISABLED is
advertised, and a non-OK completion leaves the connection unauthenticated.
"""
from __future__ import annotations

import base64
import re
import shutil
import tempfile
from typing import Any

from hypothesis import strategies as st

from harness.runner import CaseOut, case_hash
from harness.servers import USERS

import logging  # noqa: E402
logging.disable(logging.CRITICAL)   # pymap logs unhandled sieve errors

ID = 'C09'
LEVEL = 'exploration'
RULE = ('cases = (service imap|sieve, backend, tls-required, local/remote '
        'peer, sequence of <= 8 attempts; an attempt is (kind, authcid, '
        'password, authzid, mangling, spelling)). Non-trivial = a failed '
        'attempt is followed by another attempt, or authzid differs from '
        'authcid, or an exchange was cancelled / malformed; distinct by case '
        'hash. The evidence counts how many attempts succeeded.')
ASSUMPTIONS = ['only soundness is asserted: valid credentials being rejected '
               'is counted (label), not flagged',
               'passwords that SASLprep maps onto the right one are not '
               'generated',
               'STARTTLS uses a no-op start_tls()']
BUDGET = {'quick': (200, 16), 'thorough': (5000, 16)}

NAMES = ['alice', 'bob', 'root', 'nobody', '', 'ALICE', 'alice ', 'al\x00ice']
PWS = ['pwalice', 'pwbob', 'pwroot', '', 'wrong', 'pwalice ', 'PWALICE',
       'pwalic', 'pwalicee', 'pw\x00alice', '\xff', 'x' * 5000, '*']


def strategy(tier: str) -> Any:
    attempt = st.fixed_dictionaries({
        'kind': st.sampled_from(['login', 'login', 'plain', 'plain', 'plain',
                                 'sasl-login', 'bogus-mech', 'starttls',
                                 'unauth', 'unauth', 'capability']),
        'reuse': st.sampled_from([False, False, True]),
        'cid': st.sampled_from(NAMES[:4] + NAMES[:3] + NAMES),
        'pw': st.sampled_from(PWS[:3] + PWS),
        'right_pw': st.booleans(),
        'zid': st.sampled_from(['', '', 'same', 'alice', 'bob', 'root',
                                'nobody']),
        'mangle': st.sampled_from(['', '', '', '', 'cancel', 'badb64', 'empty',
                                   'nonul', 'extranul', 'trunc', 'huge']),
        'spell': st.integers(0, 3),
    })
    # warm prefix: a login that succeeds, then UNAUTHENTICATE (ManageSieve)
    # - what follows starts from a connection that *had* been authenticated
    good = st.fixed_dictionaries({
        'kind': st.sampled_from(['plain', 'login']),
        'cid': st.sampled_from(NAMES[:3]), 'pw': st.just(''),
        'right_pw': st.just(True), 'zid': st.just(''), 'mangle': st.just(''),
        'spell': st.integers(0, 3), 'reuse': st.just(False)})
    unauth = good.map(lambda a: dict(a, kind='unauth'))
    attempts = st.one_of(
        st.lists(attempt, min_size=1, max_size=8),
        st.tuples(good, unauth, st.lists(attempt, min_size=1,
                                         max_size=6)).map(
            lambda t: [t[0], t[1]] + t[2]))
    return st.fixed_dictionaries({
        'service': st.sampled_from(['imap', 'imap', 'imap', 'sieve']),
        'backend': st.sampled_from(['dict', 'dict', 'maildir']),
        'tls': st.booleans(),
        'local': st.sampled_from([False, False, True]),
        'attempts': attempts,
        'pwchange': st.sampled_from([None, None, None, 'alice', 'bob',
                                     'root']),
    })


#: the stored secrets as they are now (a case may change one after setup)
_PW: dict[str, str] = {}


def _allowed(cid: str, pw: str, zid: str, backend: str,
             service: str) -> str | None:
    """The identity the model allows this attempt to act as, or None."""
    if cid not in USERS or _PW.get(cid, USERS[cid][0]) != pw:
        return None
    if service == 'sieve':
        # the listener may ignore authzid, but may never act as someone the
        # credentials do not cover
        return cid
    if zid in ('', cid):
        return cid
    if 'admin' in USERS[cid][1] and zid in USERS:
        return zid
    return None


def _spell(v: bytes, k: int) -> bytes:
    if k % 4 == 0 and re.fullmatch(rb'[A-Za-z0-9]+', v):
        return v
    if k % 4 in (0, 1) and b'\x00' not in v and b'\r' not in v \
            and b'\n' not in v and all(c < 0x80 for c in v):
        return b'"' + v.replace(b'\\', b'\\\\').replace(b'"', b'\\"') + b'"'
    return b'{%d+}\r\n' % len(v) + v


def _blob(a: dict[str, Any], cid: str, pw: str, zid: str) -> bytes:
    raw = zid.encode('utf-8', 'surrogateescape') + b'\x00' \
        + cid.encode('latin-1', 'replace') + b'\x00' \
        + pw.encode('latin-1', 'replace')
    m = a['mangle']
    if m == 'nonul':
        raw = raw.replace(b'\x00', b'')
    elif m == 'extranul':
        raw += b'\x00x'
    blob = base64.b64encode(raw)
    if m == 'cancel':
        return b'*'
    if m == 'badb64':
        return b'!!!' + blob[:5]
    if m == 'empty':
        return b''
    if m == 'trunc':
        return blob[:-3]
    if m == 'huge':
        return base64.b64encode(raw + b'x' * 40000)
    return blob


def run_case(case: dict[str, Any]) -> CaseOut:
    from harness.servers import dict_sim, maildir_sim
    out = CaseOut()
    service, backend = case['service'], case['backend']
    if service == 'sieve':
        backend = 'dict'
    tmp = None
    kw: dict[str, Any] = {'bad_command_limit': None}
    if case['tls']:
        kw['tls_enabled'] = True
    if backend == 'dict':
        sim = dict_sim(sieve=True, **kw)
    else:
        tmp = tempfile.mkdtemp(prefix='c09-')
        sim = maildir_sim(tmp, **kw)
    nontrivial = False
    successes = 0
    try:
        # every user owns one uniquely named mailbox and sieve script
        for u in ('alice', 'bob', 'root'):
            s = sim.connect(peer=('127.0.0.1', 9))
            s.take()
            r = s.cmd(b's LOGIN %s %s\r\n' % (u.encode(),
                                              USERS[u][0].encode()))
            assert b's OK' in r, r
            s.cmd(b's CREATE box-%s\r\n' % u.encode())
            s.cmd(b's LOGOUT\r\n')
            if service == 'sieve':
                v = sim.connect('sieve', peer=('127.0.0.1', 9))
                v.take()
                if case['tls']:
                    v.cmd(b'STARTTLS\r\n')
                b64 = base64.b64encode(b'\x00%s\x00%s' % (
                    u.encode(), USERS[u][0].encode()))
                assert v.cmd(b'AUTHENTICATE "PLAIN" "%s"\r\n' % b64) \
                    .startswith(b'OK')
                v.cmd(b'PUTSCRIPT "script-%s" "keep;"\r\n' % u.encode())
                v.cmd(b'LOGOUT\r\n')
        # the stored secret of one user is replaced after everybody has
        # logged in once with the old one: from now on only the new verifies
        _PW.clear()
        who = case.get('pwchange')
        if who:
            from harness.servers import set_password
            _PW[who] = 'new-' + who
            set_password(sim, who, _PW[who], roles=USERS[who][1])
            out.label('password-changed-after-first-login')
        peer = ('127.0.0.1', 5) if case['local'] else ('1.2.3.4', 5)
        conn = sim.connect(service, peer=peer)
        greeting = conn.take()
        if service == 'imap':
            _imap(case, conn, greeting, out, backend)
        else:
            _sieve(case, conn, greeting, out)
        nontrivial = 'nt' in out.labels
        successes = out.labels.count('attempt-succeeded')
    finally:
        sim.close()
        if tmp:
            shutil.rmtree(tmp, ignore_errors=True)
    out.labels = [lb for lb in out.labels if lb != 'nt']
    out.label(service, backend, 'tls' if case['tls'] else 'notls',
              'local' if case['local'] else 'remote')
    out.counters['successful_attempts'] = successes
    if nontrivial:
        out.nontrivial = case_hash(case)
    out.sample = {k: case[k] for k in ('service', 'backend', 'tls', 'local')}
    out.sample['attempts'] = [
        {k: (v if not isinstance(v, str) or len(v) < 20 else v[:20] + '...')
         for k, v in a.items()} for a in case['attempts'][:4]]
    return out


def _creds(a: dict[str, Any], last_ok: str | None = None
           ) -> tuple[str, str, str]:
    cid = a['cid']
    if a.get('reuse') and last_ok is not None:
        cid = last_ok      # the identity that succeeded earlier on this
        #                    connection, now with whatever password is drawn
    pw = _PW.get(cid, USERS[cid][0]) if a['right_pw'] and cid in USERS \
        else a['pw']
    zid = cid if a['zid'] == 'same' else a['zid']
    return cid, pw, zid


def _imap(case: dict[str, Any], conn: Any, greeting: bytes, out: CaseOut,
          backend: str) -> None:
    caps = greeting
    authed_as: str | None = None
    prev_failed = False
    n = 0
    for a in case['attempts']:
        if conn.done:
            break
        n += 1
        tag = b'a%d' % n
        cid, pw, zid = _creds(a)
        kind = a['kind']
        allowed: str | None = None
        desc_creds = f'{kind} cid={cid!r} pw={pw[:12]!r} zid={zid!r} ' \
                     f'mangle={a["mangle"]!r}'
        if kind == 'capability':
            r = conn.cmd(tag + b' CAPABILITY\r\n')
            caps = r
            continue
        if kind == 'unauth':
            continue
        if kind == 'starttls':
            r = conn.cmd(tag + b' STARTTLS\r\n')
            if b' OK' in r:
                caps = conn.cmd(tag + b'c CAPABILITY\r\n')
            continue
        if prev_failed:
            out.label('nt')
        if zid not in ('', cid) or a['mangle']:
            out.label('nt')
        logindisabled = b'LOGINDISABLED' in caps
        if kind == 'login':
            r = conn.cmd(tag + b' LOGIN ' + _spell(cid.encode('latin-1',
                                                               'replace'),
                                                   a['spell'])
                         + b' ' + _spell(pw.encode('latin-1', 'replace'),
                                         a['spell'] + 1) + b'\r\n')
            allowed = _allowed(cid, pw, '', backend, 'imap')
            if cid.encode('latin-1', 'replace') != cid.encode('utf-8',
                                                              'replace'):
                allowed = None
        elif kind == 'plain':
            r = conn.cmd(tag + b' AUTHENTICATE PLAIN\r\n')
            if r.startswith(b'+'):
                r = conn.cmd(_blob(a, cid, pw, zid) + b'\r\n')
            if a['mangle'] in ('', 'huge'):
                allowed = _allowed(cid, pw, zid, backend, 'imap')
                if a['mangle'] == 'huge':
                    allowed = None
        elif kind == 'sasl-login':
            r = conn.cmd(tag + b' AUTHENTICATE LOGIN\r\n')
            if r.startswith(b'+'):
                u64 = base64.b64encode(cid.encode('latin-1', 'replace'))
                r = conn.cmd((b'*' if a['mangle'] == 'cancel' else u64)
                             + b'\r\n')
                if r.startswith(b'+'):
                    p64 = base64.b64encode(pw.encode('latin-1', 'replace'))
                    if a['mangle'] == 'badb64':
                        p64 = b'!!!'
                    r = conn.cmd(p64 + b'\r\n')
            if a['mangle'] in ('', 'huge', 'nonul', 'extranul', 'trunc',
                               'empty'):
                allowed = _allowed(cid, pw, '', backend, 'imap')
        else:
            r = conn.cmd(tag + b' AUTHENTICATE X-BOGUS\r\n')
            if r.startswith(b'+'):
                r = conn.cmd(b'AAAA\r\n')
        m = re.search(rb'(^|\r\n)' + re.escape(tag) + rb' (OK|NO|BAD)', r)
        cond = m.group(2) if m else None
        ok = cond == b'OK'
        if b'CAPABILITY' in r and ok:
            caps = r
        desc = f'attempt {n}: {desc_creds} ({backend}, tls_required=' \
               f'{case["tls"]}, local={case["local"]}) -> {r[-120:]!r}'
        # reveal the state
        lst = conn.cmd(b'q%d LIST "" *\r\n' % n)
        is_auth = (b'q%d OK' % n) in lst
        boxes = set(re.findall(rb'box-(\w+)', lst))
        if authed_as is not None:
            # already authenticated before this attempt: nothing may change
            if not is_auth or boxes != {authed_as.encode()}:
                out.fail('identity-changed-by-later-attempt',
                         f'{desc}: was {authed_as!r}, LIST now shows {boxes}')
                return
            continue
        if ok != is_auth:
            out.fail('completion-and-state-disagree',
                     f'{desc}: tagged {cond!r} but LIST probe says '
                     f'authenticated={is_auth}')
            return
        if is_auth:
            out.label('attempt-succeeded')
            who = {b.decode() for b in boxes}
            if allowed is None:
                out.fail(f'authenticated-without-valid-credentials:{kind}',
                         f'{desc}: now sees mailboxes of {who}')
                return
            if who != {allowed}:
                out.fail(f'acts-as-wrong-identity:{kind}',
                         f'{desc}: allowed identity {allowed!r} but LIST '
                         f'shows the mailboxes of {who}')
                return
            if kind == 'login' and logindisabled:
                out.fail('login-accepted-while-logindisabled', desc)
                return
            authed_as = allowed
            prev_failed = False
        else:
            if allowed is not None:
                out.label('valid-credentials-rejected')
            prev_failed = True


def _sieve(case: dict[str, Any], conn: Any, greeting: bytes,
           out: CaseOut) -> None:
    authed_as: str | None = None
    last_ok: str | None = None
    prev_failed = False
    n = 0
    for a in case['attempts']:
        if conn.done:
            break
        n += 1
        cid, pw, zid = _creds(a, last_ok)
        kind = a['kind']
        if kind == 'capability':
            conn.cmd(b'CAPABILITY\r\n')
            continue
        if kind == 'starttls':
            conn.cmd(b'STARTTLS\r\n')
            continue
        if kind == 'unauth':
            r = conn.cmd(b'UNAUTHENTICATE\r\n')
            if r.startswith(b'OK'):
                if authed_as is not None:
                    out.label('unauthenticate-after-success')
                authed_as = None
                lst = conn.cmd(b'LISTSCRIPTS\r\n')
                if lst.startswith(b'OK') or b'script-' in lst:
                    out.fail('sieve-still-authenticated-after-unauthenticate',
                             f'LISTSCRIPTS -> {lst!r}')
                    return
            continue
        if prev_failed or zid not in ('', cid) or a['mangle']:
            out.label('nt')
        allowed = None
        blob = _blob(a, cid, pw, zid)
        if kind in ('plain', 'login'):
            if a['spell'] % 2:
                r = conn.cmd(b'AUTHENTICATE "PLAIN" "%s"\r\n' % blob)
            else:
                r = conn.cmd(b'AUTHENTICATE "PLAIN"\r\n')
                if r.startswith((b'"', b'{')):
                    r = conn.cmd(b'"%s"\r\n' % blob)
            if a['mangle'] in ('', 'huge'):
                allowed = _allowed(cid, pw, zid, 'dict', 'sieve')
                if a['mangle'] == 'huge':
                    allowed = None
        else:
            r = conn.cmd(b'AUTHENTICATE "X-BOGUS" "AAAA"\r\n')
        ok = r.startswith(b'OK')
        desc = f'sieve attempt {n}: {kind} cid={cid!r} pw={pw[:12]!r} ' \
               f'zid={zid!r} mangle={a["mangle"]!r} -> {r[-100:]!r}'
        lst = conn.cmd(b'LISTSCRIPTS\r\n')
        is_auth = bool(re.search(rb'(^|\r\n)OK', lst))
        who = {b.decode() for b in re.findall(rb'script-(\w+)', lst)}
        if authed_as is not None:
            if not is_auth or who != {authed_as}:
                out.fail('identity-changed-by-later-attempt',
                         f'{desc}: was {authed_as!r}, LISTSCRIPTS shows '
                         f'{who}')
                return
            continue
        if is_auth:
            out.label('attempt-succeeded')
            if allowed is None or not ok:
                out.fail(f'authenticated-without-valid-credentials:sieve',
                         f'{desc}: LISTSCRIPTS shows {who}')
                return
            if who != {allowed}:
                out.fail('acts-as-wrong-identity:sieve',
                         f'{desc}: allowed {allowed!r}, scripts of {who}')
                return
            authed_as = allowed
            last_ok = cid
            prev_failed = False
        else:
            if ok:
                out.fail('completion-and-state-disagree',
                         f'{desc}: OK but LISTSCRIPTS refused')
                return
            if allowed is not None:
                out.label('valid-credentials-rejected')
            prev_failed = True
