"""C17 - \\Recent is announced to exactly one session and never stored.

Stateful histories: 0-3 sessions SELECT / EXAMINE / CLOSE / reselect /
reconnect a mailbox in any order while messages arrive by APPEND (from a
session that has the mailbox selected, another mailbox selected, or nothing
selected; with and without \\Recent in the flag list) and by COPY; STORE with
\\Recent in every mode.

Oracle (invariant over the history): per message, the set of read-write
selections in which it was ever shown with \\Recent has size <= 1; a message
that arrived while no read-write selection existed must be shown \\Recent by
the first read-write SELECT after it; EXAMINE never consumes; the RECENT
number a read-write session is given equals the number of messages it sees
flagged \\Recent; STORE never adds or removes \\Recent.
"""
from __future__ import annotations

import shutil
import tempfile
from typing import Any

from hypothesis import strategies as st

from harness.client import Client, make_message
from harness.runner import CaseOut, case_hash

ID = 'C17'
LEVEL = 'exploration'
RULE = ('cases = (backend, history of <= 30 steps (session, op, raw ints) '
        'over select / examine / close / reconnect / select-other / '
        'examine-other / append '
        '(destination, \\Recent in flag list) / copy-in / store-recent / '
        'fetch / noop for 3 sessions). Non-trivial = at least two sessions '
        'selected the mailbox and a message arrived between two selects, or '
        'an EXAMINE preceded the first SELECT after an arrival, or a session '
        'reselected; distinct by case hash.')
ASSUMPTIONS = ['sessions learn UIDs of new positions with FETCH n:m (UID '
               'FLAGS) after EXISTS, as clients do',
               'a session that had \\Recent assigned but logs out before its '
               'next command was simply never told (allowed: at most one)']
BUDGET = {'quick': (200, 16), 'thorough': (4000, 16)}

OPS = ['select', 'select', 'select', 'examine', 'close', 'reconnect',
       'select-other', 'examine-other', 'examine-other', 'append', 'append',
       'append', 'append-recent', 'copy-in', 'copy-in', 'copy-in',
       'store-recent', 'fetch', 'noop']


def strategy(tier: str) -> Any:
    r = st.integers(0, 30)
    step = st.tuples(st.integers(0, 2), st.sampled_from(OPS), r, r).map(list)
    owned = st.fixed_dictionaries({
        'backend': st.sampled_from(['dict', 'dict', 'dict', 'maildir',
                                    'maildir', 'maildir-threads']),
        'steps': st.lists(step, min_size=2, max_size=30),
    })
    cmd = st.tuples(st.integers(0, 3), st.sampled_from(BURST_OPS)).map(list)
    burst = st.fixed_dictionaries({
        'kind': st.just('burst'),
        'nsess': st.sampled_from([2, 3, 4]),
        'rounds': st.lists(st.lists(cmd, min_size=2, max_size=4),
                           min_size=2, max_size=10),
    })
    return st.one_of(owned, owned, owned, burst)


class Sess:
    def __init__(self, sim: Any, k: int) -> None:
        self.sim = sim
        self.k = k
        self.gen = 0
        self.connect()

    def connect(self) -> None:
        self.gen += 1
        self.c = Client(self.sim, prefix=b'c%d.%d-' % (self.k, self.gen))
        assert self.c.login('alice').ok
        self.mbx: bytes | None = None
        self.ro = False
        self.inst: int | None = None


BURST_OPS = ['select', 'select', 'select', 'examine', 'append', 'append',
             'close', 'noop']


def _burst_case(case: dict[str, Any]) -> CaseOut:
    """maildir on the threading subsystem: in each round several sessions
    send SELECT / EXAMINE / APPEND / CLOSE at the same moment (different
    worker threads). Whatever the interleaving: no message is shown \\Recent
    in two read-write selections, EXAMINE never shows one that a later
    read-write selection does not also get... (only the first is asserted),
    and the RECENT number equals what the session then sees."""
    from harness.servers import maildir_sim
    from harness.simloop import NoQuiescence
    out = CaseOut()
    out.nondeterministic = True
    tmp = tempfile.mkdtemp(prefix='c17b-')
    sim = maildir_sim(tmp, threads=True)
    overlap = 0
    try:
        clients = []
        for k in range(case['nsess']):
            c = Client(sim, prefix=b'c%d-' % k)
            assert c.login('alice').ok
            clients.append(c)
        sel: dict[int, tuple[int, bool] | None] = {k: None for k in
                                                   range(len(clients))}
        inst = [0]
        shown: dict[int, set[int]] = {}
        vid = 0
        assigned: dict[tuple[int, int], bytes] = {}
        for rno, rnd in enumerate(case['rounds']):
            if out.failures:
                break
            pending: dict[int, tuple[bytes, str]] = {}
            appended: dict[int, bytes] = {}
            for k, op in rnd:
                k %= len(clients)
                c = clients[k]
                if k in pending or c.conn.done:
                    continue
                if op in ('select', 'examine'):
                    cmd = (b'EXAMINE' if op == 'examine' else b'SELECT') \
                        + b' INBOX'
                elif op == 'append':
                    vid += 1
                    m = make_message('t%d' % vid)
                    cmd = b'APPEND INBOX {%d+}\r\n%s' % (len(m), m)
                    appended[k] = b't%d' % vid
                elif op == 'close' and sel[k] is not None:
                    cmd = b'CLOSE'
                else:
                    cmd = b'NOOP'
                    op = 'noop'
                tag = c.next_tag()
                if op in ('select', 'examine'):
                    c.shadow.begin_select()
                c.conn.feed(tag + b' ' + cmd + b'\r\n')
                pending[k] = (tag, op)
            if len(pending) > 1:
                overlap += 1
            try:
                sim.settle(advance=1.0)
            except NoQuiescence:
                out.fail('no-quiescence:threads', f'round {rno}')
                break
            for k, (tag, op) in pending.items():
                c = clients[k]
                raw = c.conn.take()
                c.log.append((tag + b' ' + op.encode(), raw))
                import re as _re
                mu = _re.search(rb'APPENDUID (\d+) (\d+)', raw)
                if mu and k in appended:
                    key = (int(mu.group(1)), int(mu.group(2)))
                    if key in assigned:
                        out.fail('uid-assigned-twice:threads',
                                 f'{key} for {assigned[key]!r} and for '
                                 f'{appended[k]!r}')
                    assigned[key] = appended[k]
                resps = c.parse(raw)
                for r in resps:
                    c.shadow.apply(r)
                ok = any(r.kind == 'tagged' and r.tag == tag
                         and r.name == b"OK" for r in resps)
                if op in ('select', 'examine'):
                    if ok:
                        inst[0] += 1
                        sel[k] = (inst[0], op == 'examine')
                    else:
                        sel[k] = None
                        c.shadow.reset()
                elif op == 'close' and ok:
                    sel[k] = None
                    c.shadow.reset()
            # everybody who has it selected looks (one at a time)
            for k, c in enumerate(clients):
                if sel[k] is None or c.conn.done:
                    continue
                c.command(b'NOOP')
                if c.shadow.view:
                    c.command(b'FETCH 1:* (UID FLAGS)', nonuid_data_cmd=True)
                for sig, msg in c.shadow.errors:
                    out.fail(sig + ':threads', f'session {k}: {msg}')
                c.shadow.errors.clear()
                rec = {u for u, fl in zip(c.shadow.view, c.shadow.flags)
                       if u is not None and fl and b'\\recent' in fl}
                i, ro = sel[k]           # type: ignore[misc]
                if ro:
                    continue
                for u in rec:
                    shown.setdefault(u, set()).add(i)
                    if len(shown[u]) > 1:
                        out.fail('recent-shown-to-two-selections:threads',
                                 f'UID {u} was shown \\Recent in read-write '
                                 f'selections {sorted(shown[u])} (round '
                                 f'{rno}: {[p[1] for p in pending.values()]})')
                if c.shadow.recent is not None and \
                        c.shadow.recent != len(rec):
                    out.fail('recent-count-disagrees-with-flags:threads',
                             f'session {k} was told {c.shadow.recent} RECENT '
                             f'but sees \\Recent on {sorted(rec)}')
        # C04 under real concurrency: what APPENDUID said is what is there
        if not out.failures and assigned:
            from harness.client import probe_dump
            sim.settle(advance=1.0)
            d = probe_dump(sim, 'alice', b'INBOX')
            assert d is not None
            for (uv, u), v in assigned.items():
                got = d['messages'].get(u)
                if uv != d.get('uidvalidity'):
                    out.fail('uidvalidity-changed-under-append:threads',
                             f'APPENDUID said UIDVALIDITY {uv}, the mailbox '
                             f'now has {d.get("uidvalidity")}')
                    break
                if got is None or got['vid'] != v:
                    out.fail('appenduid-not-found-by-uid-fetch:threads',
                             f'APPENDUID {uv} {u} was given for {v!r}; UID '
                             f'FETCH finds {got and got["vid"]!r} '
                             f'(mailbox: {sorted(d["messages"])})')
                    break
            out.counters['burst_appenduids_checked'] = len(assigned)
        import os as _os
        if out.failures and _os.environ.get('VERIF_DEBUG_LOGS'):
            for j, c in enumerate(clients):
                print(f'--- session {j}')
                for sent, got in c.log[-12:]:
                    print('   C:', sent[:90], '\n   S:', got[-700:])
    finally:
        sim.close()
        shutil.rmtree(tmp, ignore_errors=True)
    out.label('maildir-threads', 'burst')
    out.counters['burst_rounds_with_overlap'] = overlap
    if overlap:
        out.nontrivial = case_hash(case)
    out.sample = {'kind': 'burst', 'nsess': case['nsess'],
                  'rounds': case['rounds'][:6]}
    return out


def run_case(case: dict[str, Any]) -> CaseOut:
    from harness.servers import dict_sim, maildir_sim
    if case.get('kind') == 'burst':
        return _burst_case(case)
    out = CaseOut()
    backend = case['backend']
    tmp = None
    if backend == 'dict':
        sim = dict_sim()
    else:
        tmp = tempfile.mkdtemp(prefix='c17-')
        sim = maildir_sim(tmp, threads=backend == 'maildir-threads')
    nt = False
    try:
        setup = Client(sim, prefix=b's')
        setup.login('alice')
        setup.command(b'CREATE Other')
        m0 = make_message('other0')
        setup.command(b'APPEND Other {%d+}' % len(m0), m0)
        setup.command(b'LOGOUT')
        sess = [Sess(sim, k) for k in range(3)]
        inst_counter = [0]
        shown: dict[int, set[int]] = {}     # uid -> rw selection instances
        shown_ro: dict[int, set[int]] = {}
        unclaimed: set[int] = set()         # arrived with no rw selection
        arrivals_since_select = 0
        selectors: set[int] = set()
        vid = [0]
        all_uids: set[int] = set()

        def fail(sig: str, msg: str) -> None:
            out.fail(sig + ':' + backend, msg)

        def observe(s: Sess, where: str) -> None:
            """after a command of session s: learn, record who is shown
            \\Recent, check the RECENT number"""
            c = s.c
            if s.mbx != b'INBOX' or c.conn.done:
                return
            view = c.shadow.view
            unknown = [i + 1 for i, u in enumerate(view)
                       if u is None or c.shadow.flags[i] is None]
            if unknown:
                c.command(b'FETCH %d:%d (UID FLAGS)' % (unknown[0],
                                                        unknown[-1]),
                          nonuid_data_cmd=True)
            for sig, msg in c.shadow.errors:
                fail(sig, f'session {s.k}: {msg} ({where})')
            c.shadow.errors.clear()
            rec = set()
            for u, fl in zip(c.shadow.view, c.shadow.flags):
                if u is None or fl is None:
                    return
                all_uids.add(u)
                if b'\\recent' in fl:
                    rec.add(u)
            target = shown_ro if s.ro else shown
            for u in rec:
                target.setdefault(u, set()).add(s.inst)  # type: ignore
            if not s.ro:
                for u in rec:
                    if len(shown[u]) > 1:
                        fail('recent-shown-to-two-selections',
                             f'UID {u} was shown \\Recent in read-write '
                             f'selections {sorted(shown[u])} ({where})')
                if c.shadow.recent is not None and \
                        c.shadow.recent != len(rec):
                    fail('recent-count-disagrees-with-flags',
                         f'session {s.k} was told {c.shadow.recent} RECENT '
                         f'but sees \\Recent on {sorted(rec)} ({where})')

        def rw_selected() -> list[Sess]:
            return [x for x in sess if x.mbx == b'INBOX' and not x.ro
                    and not x.c.conn.done]

        def arrived(res: Any, where: str) -> None:
            """bookkeeping for a message that just arrived in INBOX"""
            nonlocal arrivals_since_select
            code = None
            for r in res.resps:
                if r.code and r.code[0] in (b'APPENDUID', b'COPYUID'):
                    code = r.code
            if code is None:
                return
            uid = int(code[1].split(b' ')[-1].split(b',')[-1].split(b':')[-1])
            all_uids.add(uid)
            arrivals_since_select += 1
            if not rw_selected():
                unclaimed.add(uid)

        for idx, (k, op, a, b) in enumerate(case['steps']):
            if out.failures:
                break
            s = sess[k % 3]
            c = s.c
            where = f'step {idx} {op} by session {s.k}'
            if c.conn.done:
                s.connect()
                c = s.c
            if op in ('select', 'examine'):
                ro = op == 'examine'
                if s.mbx == b'INBOX':
                    nt = True
                    out.label('reselect')
                if selectors - {s.k} and arrivals_since_select:
                    nt = True
                    out.label('arrival-between-selects')
                if ro and unclaimed:
                    nt = True
                    out.label('examine-before-first-select')
                res = c.select(b'INBOX', examine=ro, learn=False)
                assert res.ok, res.raw
                inst_counter[0] += 1
                s.mbx, s.ro, s.inst = b'INBOX', ro, inst_counter[0]
                selectors.add(s.k)
                observe(s, where)
                if not ro:
                    arrivals_since_select = 0
                    rec_now = {u for u, fl in zip(c.shadow.view,
                                                  c.shadow.flags)
                               if u is not None and fl and b'\\recent' in fl}
                    missing = unclaimed - rec_now
                    if missing:
                        fail('unclaimed-arrival-not-recent-for-first-select',
                             f'UIDs {sorted(missing)} arrived while no '
                             f'read-write selection existed, but this SELECT '
                             f'shows \\Recent only on {sorted(rec_now)} '
                             f'({where})')
                    unclaimed.clear()
            elif op == 'close':
                if s.mbx is not None:
                    c.command(b'CLOSE')
                    s.mbx = None
            elif op == 'reconnect':
                c.command(b'LOGOUT')
                s.connect()
            elif op in ('select-other', 'examine-other'):
                # (an EXAMINEd source keeps its own \Recent unclaimed: the
                # copy made from it must still not carry it over)
                ro = op == 'examine-other'
                res = c.select(b'Other', examine=ro, learn=False)
                s.mbx, s.ro, s.inst = b'Other', ro, None
            elif op in ('append', 'append-recent'):
                vid[0] += 1
                m = make_message('v%d' % vid[0])
                dest = b'INBOX' if a % 4 else b'Other'
                fl = [b'', b'\\Seen', b'\\Flagged'][b % 3]
                if op == 'append-recent':
                    fl = (fl + b' \\Recent').strip()
                res = c.command(b'APPEND %s (%s) {%d+}' % (dest, fl, len(m)),
                                m)
                if res.ok and dest == b'INBOX':
                    arrived(res, where)
                observe(s, where)
            elif op == 'copy-in':
                if s.mbx != b'Other':
                    continue
                res = c.command(b'COPY 1 INBOX')
                if res.ok:
                    arrived(res, where)
                    if s.ro:
                        out.label('copy-from-examined-source')
            elif op == 'store-recent':
                if s.mbx != b'INBOX' or s.ro or not c.shadow.view:
                    continue
                observe(s, where + ' (before)')
                before = [fl is not None and b'\\recent' in fl
                          for fl in c.shadow.flags]
                mode = [b'FLAGS', b'+FLAGS', b'-FLAGS', b'FLAGS.SILENT',
                        b'-FLAGS.SILENT'][a % 5]
                extra = [b'', b' \\Seen', b' \\Flagged'][b % 3]
                res = c.command(b'STORE 1:* ' + mode + b' (\\Recent' + extra
                                + b')', nonuid_data_cmd=True)
                # whatever the answer, \\Recent must not move
                chk = c.command(b'FETCH 1:* (UID FLAGS)',
                                nonuid_data_cmd=True)
                after = [fl is not None and b'\\recent' in fl
                         for fl in c.shadow.flags]
                n = min(len(before), len(after))
                if before[:n] != after[:n]:
                    fail('store-changed-recent',
                         f'STORE 1:* {mode.decode()} (\\Recent...) changed '
                         f'\\Recent from {before} to {after} ({where})')
                observe(s, where)
            elif op == 'fetch':
                if s.mbx == b'INBOX' and c.shadow.view:
                    c.command(b'FETCH 1:* (UID FLAGS)', nonuid_data_cmd=True)
                    observe(s, where)
            elif op == 'noop':
                c.command(b'NOOP')
                observe(s, where)
        # final: everybody syncs; then a fresh read-write SELECT must not
        # see \\Recent on anything that was already announced
        for s in sess:
            if not s.c.conn.done and s.mbx == b'INBOX':
                s.c.command(b'NOOP')
                observe(s, 'final sync')
        if not out.failures:
            z = Sess(sim, 9)
            res = z.c.select(b'INBOX', learn=False)
            inst_counter[0] += 1
            z.mbx, z.ro, z.inst = b'INBOX', False, inst_counter[0]
            observe(z, 'final fresh SELECT')
    finally:
        sim.close()
        if tmp:
            shutil.rmtree(tmp, ignore_errors=True)
    out.label(backend)
    if nt:
        out.nontrivial = case_hash(case)
    out.sample = {'backend': backend,
                  'steps': [s[:3] for s in case['steps'][:12]]}
    return out
