"""C15 - maildir state survives restart and crashes without UID damage.

A generated history of <= 8 commands (APPEND, STORE, COPY, MOVE, EXPUNGE,
CREATE, RENAME, DELETE, SUBSCRIBE, UNSUBSCRIBE, CHECK) runs once on a fresh maildir store under
harness.fsmon; a copy of the store is taken before *every* mutating
filesystem operation (= the disk image of a kill at that point) and after the
last command (clean stop). Every image is restarted with a new backend and
dumped. Layouts '++' and 'fs'; store on the temp filesystem and, when the
sandbox has one, on a second filesystem.

Oracle: every effect acknowledged before the crash point is served after the
restart (same X-Vid, flags and - UIDVALIDITY unchanged - UID; mailboxes and
subscriptions); the single in-flight command may be applied or not (MOVE/COPY
may leave the message in both places); LIST/SELECT never fail; no
(UIDVALIDITY, UID) denotes another message than before; one more APPEND gets
a UID above everything reported before.
"""
from __future__ import annotations

import os
import tempfile
from typing import Any

from hypothesis import strategies as st

from harness import crash
from harness.runner import CaseOut, case_hash

ID = 'C15'
LEVEL = 'fault_enumeration'
RULE = ('cases = (layout, filesystem placement, history of <= 8 commands '
        'with raw-int arguments); every prefix of the filesystem-operation '
        'trace of the history is a crash point and is restarted (exhaustive '
        'per history). Non-trivial = (history, crash index) where the crash '
        'point lies strictly inside a command (after its first and before '
        'its last mutating operation); distinct_nontrivial counts the '
        'histories that contain such a crash point, '
        'coverage.inside_command_crash_points counts the pairs.')
ASSUMPTIONS = ['the image of a crash between operations k-1 and k is the '
               'store as the OS sees it before operation k (data still in '
               'Python buffers is lost in both); loss of un-fsynced data by '
               'the OS is out of scope',
               'lock files left by the killed process are aged past '
               'FileLock\'s expiry before the restart',
               'asyncio subsystem, one server process']
BUDGET = {'quick': (20, 16), 'thorough': (400, 16)}

OPS = ['append', 'append', 'store', 'store', 'copy', 'move', 'expunge',
       'create', 'rename', 'subscribe', 'check', 'check', 'append-other',
       'delete', 'unsubscribe', 'append2', 'append2']
SYS = [b'\\Seen', b'\\Flagged', b'\\Deleted', b'\\Answered']


def strategy(tier: str) -> Any:
    r = st.integers(0, 30)
    step = st.tuples(st.sampled_from(OPS), r, r).map(list)
    return st.fixed_dictionaries({
        'layout': st.sampled_from(['++', 'fs']),
        'otherfs': st.sampled_from([False, False, True]),
        'init': st.integers(0, 2),
        'history': st.lists(step, min_size=1, max_size=8),
    })


def _acked_ok(a: dict[str, Any], b: dict[str, Any],
              r: dict[str, Any], inflight: Any, out: CaseOut,
              where: str, ever: dict[tuple[int, int], bytes]) -> None:
    """a = live dump after the last acknowledged command, b = live dump
    after the in-flight command (None for a clean stop), r = restart dump,
    ever = every (UIDVALIDITY, UID) -> X-Vid reported before the crash."""
    states = [a] + ([b] if b is not None else [])
    for name, rbox in r['mailboxes'].items():
        for uid, (vid, flags, size) in rbox['messages'].items():
            was = ever.get((rbox['uidvalidity'], uid))
            if was is not None and was != vid:
                out.fail('uid-denotes-another-message-after-restart',
                         f'{where}: {name!r} UID {uid} is {vid!r} after the '
                         f'restart, but (UIDVALIDITY {rbox["uidvalidity"]}, '
                         f'UID {uid}) had been reported for {was!r}')
                return
        probe = r.get('append_probe', {}).get(name)
        if probe and probe[0] == rbox['uidvalidity'] and \
                probe[1] <= max(rbox['messages'], default=0):
            out.fail('uid-reused-after-restart',
                     f'{where}: APPEND to {name!r} after the restart got UID '
                     f'{probe[1]}, but the restarted server itself serves '
                     f'UIDs up to {max(rbox["messages"])} there')
            return
        if probe and (probe[0], probe[1]) in ever:
            out.fail('uid-reused-after-restart',
                     f'{where}: APPEND to {name!r} after the restart got '
                     f'(UIDVALIDITY {probe[0]}, UID {probe[1]}), which had '
                     f'been reported for {ever[(probe[0], probe[1])]!r}')
            return
    # mailboxes
    for name in a['mailboxes']:
        gone_later = b is not None and name not in b['mailboxes']
        if name not in r['mailboxes'] and not gone_later:
            out.fail('acknowledged-mailbox-missing-after-restart',
                     f'{where}: {name!r} existed, restart lists '
                     f'{sorted(r["mailboxes"])}')
            return
    for name in a['lsub']:
        if name not in r['lsub'] and (b is None or name in b['lsub']):
            out.fail('acknowledged-subscription-missing-after-restart',
                     f'{where}: {name!r}; restart LSUB {r["lsub"]}')
            return
    # messages
    for name, rbox in r['mailboxes'].items():
        boxes = [s['mailboxes'][name] for s in states
                 if name in s['mailboxes']]
        # a mailbox renamed by the in-flight command keeps its identity
        for s in states:
            for other, sbox in s['mailboxes'].items():
                if other != name and sbox['uidvalidity'] == \
                        rbox['uidvalidity'] and sbox not in boxes:
                    boxes.append(sbox)
        same_uv = [bx for bx in boxes
                   if bx['uidvalidity'] == rbox['uidvalidity']]
        for uid, (vid, flags, size) in rbox['messages'].items():
            for bx in same_uv:
                if uid in bx['messages'] and bx['messages'][uid][0] != vid:
                    out.fail('uid-denotes-another-message-after-restart',
                             f'{where}: {name!r} UID {uid} is {vid!r} after '
                             f'the restart, was {bx["messages"][uid][0]!r} '
                             f'(UIDVALIDITY {rbox["uidvalidity"]})')
                    return
    for name, abox in a['mailboxes'].items():
        if name not in r['mailboxes']:
            continue
        rbox = r['mailboxes'][name]
        bbox = b['mailboxes'].get(name) if b is not None else None
        for uid, (vid, flags, size) in abox['messages'].items():
            changed_later = bbox is not None and \
                bbox['messages'].get(uid) != (vid, flags, size)
            if bbox is None and b is not None:
                changed_later = True      # mailbox renamed/deleted in flight
            got = None
            if rbox['uidvalidity'] == abox['uidvalidity']:
                got = rbox['messages'].get(uid)
            else:
                cands = [v for v in rbox['messages'].values() if v[0] == vid]
                got = cands[0] if cands else None
            if got is None:
                if changed_later:
                    # the in-flight command may or may not have taken the
                    # message away - but if it is still served here, under
                    # the same UIDVALIDITY, it must be under its own UID
                    # (only when the mailbox held a single copy of it: two
                    # copies of one message are told apart by UID alone)
                    copies = sum(1 for v in abox['messages'].values()
                                 if v[0] == vid)
                    if rbox['uidvalidity'] == abox['uidvalidity'] \
                            and copies == 1:
                        other = [u for u, v in rbox['messages'].items()
                                 if v[0] == vid and u != uid]
                        if other:
                            out.fail('acknowledged-message-changed-uid-'
                                     'after-restart',
                                     f'{where}: {name!r} UID {uid} ({vid!r}) '
                                     f'is served as UID {other[0]} after the '
                                     f'restart, UIDVALIDITY unchanged '
                                     f'({abox["uidvalidity"]})')
                            return
                    continue
                out.fail('acknowledged-message-lost-after-restart',
                         f'{where}: {name!r} UID {uid} ({vid!r}) is not '
                         f'served after the restart (UIDVALIDITY '
                         f'{abox["uidvalidity"]} -> {rbox["uidvalidity"]}); '
                         f'it serves {rbox["messages"]}')
                return
            if got[0] != vid or got[2] != size:
                out.fail('acknowledged-message-content-differs',
                         f'{where}: {name!r} UID {uid}: {got} vs '
                         f'{(vid, flags, size)}')
                return
            if got[1] != flags and not changed_later:
                out.fail('acknowledged-flags-lost-after-restart',
                         f'{where}: {name!r} UID {uid} has {sorted(got[1])} '
                         f'after the restart, acknowledged {sorted(flags)}')
                return
        # one more APPEND must not reuse a reported UID
        probe = r.get('append_probe', {}).get(name)
        if probe and probe[0] == abox['uidvalidity']:
            reported = list(abox['messages']) + [abox['uidnext'] - 1
                                                 if abox['uidnext'] else 0]
            if probe[1] <= max(reported, default=0):
                out.fail('uid-reused-after-restart',
                         f'{where}: APPEND to {name!r} after the restart got '
                         f'UID {probe[1]}, but UIDs up to '
                         f'{max(reported)} had been reported before')
                return


def run_case(case: dict[str, Any]) -> CaseOut:
    out = CaseOut()
    layout = case['layout']
    parent = None
    if case['otherfs']:
        parent = crash.second_filesystem()
        if parent is None:
            out.label('second-filesystem-not-available')
    try:
        h = crash.History(layout=layout, base_parent=parent)
    except OSError as exc:
        out.fail('store-cannot-be-provisioned',
                 f'layout {layout}, parent {parent}: {exc!r}')
        return out
    nt_keys = []
    try:
        c = h.connect()
        c.cmd(b's CREATE Other\r\n')
        vid = [0]

        def msg() -> bytes:
            vid[0] += 1
            return b'X-Vid: v%d\r\n\r\nbody %d\r\n' % (vid[0], vid[0])
        for i in range(case['init']):
            m = msg()
            c.cmd(b's APPEND INBOX (\\Seen) {%d+}\r\n%s\r\n' % (len(m), m))
        c.cmd(b's SELECT INBOX\r\n')
        c2: Any = None
        live = [crash.dump_all(h.sim)]       # dump after 0 acked commands
        names = [b'New', b'New2', b'Deep/er']
        for idx, (op, a, b) in enumerate(case['history']):
            n = len(live[-1]['mailboxes'].get(b'INBOX', {}).get(
                'messages', {}))
            seq = b'%d' % (1 + a % max(n, 1)) if a % 3 else b'1:*'
            tag = b'h%d' % idx
            conn = c
            if op == 'append2':
                # a second connection, nothing selected: its message stays in
                # new/ until somebody claims it
                if c2 is None:
                    c2 = h.connect()
                conn = c2
                op = 'append'
                out.label('append-by-second-connection')
            if op in ('append', 'append-other'):
                m = msg()
                dest = b'INBOX' if op == 'append' else b'Other'
                fl = SYS[b % 4] if b % 2 else b''
                data = b'APPEND %s (%s) {%d+}\r\n%s' % (dest, fl, len(m), m)
            elif op == 'store':
                data = b'STORE %s %sFLAGS (%s)' % (
                    seq, [b'+', b'-', b''][b % 3], SYS[a % 4])
            elif op == 'copy':
                data = b'COPY %s Other' % seq
            elif op == 'move':
                data = b'MOVE %s Other' % seq
            elif op == 'expunge':
                data = b'EXPUNGE'
            elif op == 'create':
                data = b'CREATE %s' % names[a % 3]
            elif op == 'rename':
                data = b'RENAME %s %s' % ([b'Other', b'New', b'New2'][a % 3],
                                          [b'Moved', b'New2', b'Deep/x'][b % 3])
            elif op == 'subscribe':
                data = b'SUBSCRIBE %s' % [b'Other', b'INBOX', b'New'][a % 3]
            elif op == 'unsubscribe':
                data = b'UNSUBSCRIBE %s' % [b'Other', b'INBOX', b'New'][a % 3]
            elif op == 'delete':
                data = b'DELETE %s' % [b'Other', b'New', b'New2', b'Deep/er',
                                       b'Deep'][a % 5]
            else:
                data = b'CHECK'
            got = h.run(conn, idx, tag + b' ' + data + b'\r\n')
            if c.done:
                out.fail('connection-lost-during-history',
                         f'{data[:60]!r} -> {got[-120:]!r}')
                break
            h.acked = idx + 1
            live.append(crash.dump_all(h.sim))
        # clean stop image
        if not out.failures:
            h.snaps.append({'dir': h.base, 'acked': len(live) - 1,
                            'inflight': None, 'op': 'clean-stop', 'path': '',
                            'k': 0})
        per_cmd: dict[Any, int] = {}
        for s in h.snaps:
            per_cmd[s['inflight']] = max(per_cmd.get(s['inflight'], 0),
                                         s['k'])
        for s in h.snaps:
            if out.failures:
                break
            a = live[s['acked']]
            b = live[s['acked'] + 1] if s['inflight'] is not None and \
                s['acked'] + 1 < len(live) else None
            where = (f'crash before fs op {s["k"]} ({s["op"]} {s["path"]}) '
                     f'of command {s["inflight"]} '
                     f'{case["history"][s["inflight"]][0]!r}'
                     if s['inflight'] is not None else 'clean stop') + \
                f' [{layout}, {"other fs" if parent else "temp fs"}]'
            try:
                r = crash.restart_dump(s['dir'], layout)
            except RuntimeError as exc:
                out.fail('restart-cannot-serve', f'{where}: {exc}')
                break
            out.counters['crash_points'] = out.counters.get(
                'crash_points', 0) + 1
            ever: dict[tuple[int, int], bytes] = {}
            for d in live[:s['acked'] + 1]:
                for bx in d['mailboxes'].values():
                    for uid, v in bx['messages'].items():
                        ever[(bx['uidvalidity'], uid)] = v[0]
            _acked_ok(a, b, r, s['inflight'], out, where, ever)
            if s['inflight'] is not None and 1 < s['k'] <= per_cmd[
                    s['inflight']]:
                nt_keys.append((s['inflight'], s['k']))
    finally:
        h.close()
    out.label(layout, 'otherfs' if parent else 'tempfs')
    out.counters['inside_command_crash_points'] = len(nt_keys)
    if nt_keys:
        out.nontrivial = case_hash(case)
    out.sample = {'layout': layout, 'otherfs': bool(parent),
                  'history': [s[0] for s in case['history']],
                  'crash_points': out.counters.get('crash_points', 0)}
    return out
