"""C08 - mailbox names cannot reach outside the user's own mail store.

maildir ('++' and 'fs'): while alice is served, every filesystem call pymap
makes is traced by harness.fsmon in *confine* mode (a mutating call outside
<base>/alice is refused before it happens - the checks run as root). Any
mutating call outside alice's store, any directory listing / file read
outside it, and any rmdir/rename/remove of the store directory itself is a
violation; bob's directory tree, bob's dump and the credential files must be
byte-identical afterwards. dict: bob's LIST and dumps are unchanged.

Names come from a component alphabet joined by '/', exhaustively up to 2
(quick) / 3 (thorough) components, in all 14 argument positions that take a
mailbox name; Hypothesis generates longer and stranger names.
"""
from __future__ import annotations

import itertools
import os
import re
import shutil
import sys
import tempfile
from typing import Any

from hypothesis import strategies as st

from harness import fsmon
from harness.models import mutf7_encode
from harness.runner import CaseOut, case_hash

ID = 'C08'
LEVEL = 'exploration'
RULE = ('cases = (backend/layout, mailbox name); every case runs the name '
        'through the 14 argument positions STATUS, SELECT, EXAMINE, LIST '
        'reference, LIST pattern, LSUB reference, SUBSCRIBE, UNSUBSCRIBE, '
        'APPEND, COPY, MOVE, CREATE, RENAME to, RENAME from, DELETE (plus '
        'RENAME/DELETE again after CREATE). Exhaustive over names of <= 2 '
        '(quick) / <= 3 (thorough) components from a 16-element alphabet, '
        'both maildir layouts and dict; Hypothesis names beyond. Non-trivial '
        '= the name has an empty, "." or ".." component, a NUL, or a '
        'doubled / leading / trailing delimiter; distinct by (backend, '
        'layout, name).')
EXHAUSTIVE_NOTE = ('all names of <= 2 (quick) / <= 3 (thorough) components '
                   'over {"", ".", "..", "a", "INBOX", "x y", NUL, 300 bytes, '
                   'non-ASCII, "~", "*"} x {maildir ++, maildir fs, dict}')
ASSUMPTIONS = ['filesystem calls are observed by wrapping os/builtins/io in '
               'the worker process; calls made from C extensions directly '
               'would be invisible (pymap and the stdlib mailbox module are '
               'pure Python)',
               'reads by the interpreter itself (sys.prefix, site-packages, '
               '/repo, zoneinfo) and stat() calls are not flagged',
               'the store sits five directories deep inside the scratch area']
BUDGET = {'quick': (25, 16), 'thorough': (600, 16)}

COMPONENTS = ['', '.', '..', 'a', 'INBOX', 'x y', '\x00', 'L' * 300, 'é中',
              '~', '*',
              # compatibility look-alikes of '.', '..' and '/': harmless as
              # they are, '..' and '/' after a Unicode normalisation
              '\u2024', '\u2025', '\uff0e\uff0e', 'a\uff0fb', 'cur']


def enumerate_cases(tier: str) -> Any:
    top = 2 if tier == 'quick' else 3
    for backend in ('maildir++', 'maildirfs', 'dict'):
        for n in range(1, top + 1):
            for comps in itertools.product(COMPONENTS, repeat=n):
                yield {'backend': backend, 'name': '/'.join(comps)}


def strategy(tier: str) -> Any:
    comp = st.one_of(st.sampled_from(COMPONENTS + ['...', '.a', 'a.', 'bob',
                                                   'alice', 'cur', 'new',
                                                   'tmp', '%', '\\', '"',
                                                   '\n', '.bob', '..bob']),
                     st.text(max_size=5))
    name = st.lists(comp, min_size=1, max_size=6).map('/'.join)
    sep = st.sampled_from(['', '', '/', '//'])
    return st.tuples(st.sampled_from(['maildir++', 'maildirfs', 'maildirfs',
                                      'dict']), sep, name, sep).map(
        lambda t: {'backend': t[0], 'name': t[1] + t[2] + t[3]})


def _nontrivial(name: str) -> bool:
    comps = name.split('/')
    return any(c in ('', '.', '..') for c in comps) or '\x00' in name


def _lit(v: bytes) -> bytes:
    return b'{%d+}\r\n' % len(v) + v


def _program(enc: bytes) -> list[tuple[str, bytes]]:
    n = _lit(enc)
    return [
        ('STATUS', b'STATUS ' + n + b' (MESSAGES)'),
        ('SELECT', b'SELECT ' + n),
        ('EXAMINE', b'EXAMINE ' + n),
        ('LIST-ref', b'LIST ' + n + b' *'),
        ('LIST-pattern', b'LIST "" ' + n),
        ('LIST-ref-pattern', b'LIST ' + n + b' ' + _lit(enc + b'/%')),
        ('LSUB-ref', b'LSUB ' + n + b' %'),
        ('SUBSCRIBE', b'SUBSCRIBE ' + n),
        ('UNSUBSCRIBE', b'UNSUBSCRIBE ' + n),
        ('APPEND', b'APPEND ' + n + b' {9+}\r\nX: y\r\n\r\nz'),
        ('reselect', b'SELECT INBOX'),
        ('COPY', b'COPY 1 ' + n),
        ('MOVE', b'MOVE 2 ' + n),
        ('CREATE', b'CREATE ' + n),
        ('APPEND-after-create', b'APPEND ' + n + b' {9+}\r\nX: y\r\n\r\nz'),
        ('RENAME-to', b'RENAME folder ' + n),
        ('RENAME-from', b'RENAME ' + n + b' renamed'),
        ('DELETE', b'DELETE ' + n),
        ('CREATE-again', b'CREATE ' + n),
        ('DELETE-again', b'DELETE ' + n),
    ]


_WARM = {'done': False}


def _provision(sim: Any) -> None:
    """alice and bob each get INBOX with 3 messages and a folder."""
    for u, pw in (('alice', b'pwalice'), ('bob', b'pwbob')):
        c = sim.connect()
        c.take()
        assert b's OK' in c.cmd(b's LOGIN %s %s\r\n' % (u.encode(), pw))
        c.cmd(b's CREATE folder\r\n')
        c.cmd(b's SUBSCRIBE folder\r\n')
        for i in range(3):
            c.cmd(b's APPEND INBOX {22+}\r\nX-Vid: %s%d\r\n\r\nbody\r\n\r\n'
                  % (u[:1].encode(), i))
        c.cmd(b's APPEND folder {9+}\r\nX: y\r\n\r\nz\r\n')
        c.cmd(b's LOGOUT\r\n')


def _bob_view(sim: Any) -> Any:
    c = sim.connect()
    c.take()
    c.cmd(b'b LOGIN bob pwbob\r\n')
    out = [sorted(re.findall(rb'\* LIST [^\r]*', c.cmd(b'b LIST "" *\r\n'))),
           sorted(re.findall(rb'\* LSUB [^\r]*', c.cmd(b'b LSUB "" *\r\n')))]
    for mbx in (b'INBOX', b'folder'):
        r = c.cmd(b'b EXAMINE ' + mbx + b'\r\n')
        out.append(re.findall(rb'\* \d+ EXISTS', r))
        r = c.cmd(b'b UID FETCH 1:* (FLAGS RFC822.SIZE BODY.PEEK[])\r\n')
        out.append(re.sub(rb'\\Recent ?', b'', r))
    c.cmd(b'b LOGOUT\r\n')
    return out


def run_case(case: dict[str, Any]) -> CaseOut:
    from harness.servers import dict_sim, maildir_sim
    out = CaseOut()
    backend = case['backend']
    name = case['name']
    try:
        enc = mutf7_encode(name)
    except Exception:
        out.label('name-not-encodable')
        return out
    if backend == 'dict':
        with dict_sim(bad_command_limit=None) as sim:
            _provision(sim)
            before = _bob_view(sim)
            c = sim.connect()
            c.take()
            c.cmd(b'a LOGIN alice pwalice\r\n')
            c.cmd(b'a SELECT INBOX\r\n')
            for i, (what, cmd) in enumerate(_program(enc)):
                if c.done:
                    break
                c.cmd(b'a%d ' % i + cmd + b'\r\n')
            after = _bob_view(sim)
            if after != before:
                out.fail('other-user-sees-a-change:dict',
                         f'name {name!r}: bob saw {before} before and '
                         f'{after} after alice\'s commands')
    else:
        layout = '++' if backend == 'maildir++' else 'fs'
        scratch = tempfile.mkdtemp(prefix='c08-')
        base = os.path.join(scratch, 'l1', 'l2', 'l3', 'l4', 'base')
        tmpdir = os.path.join(scratch, 'tmp')
        os.makedirs(base)
        os.makedirs(tmpdir)
        # bait: things a traversal would find above the store
        with open(os.path.join(scratch, 'l1', 'l2', 'bait.txt'), 'w') as f:
            f.write('bait')
        old_tmp = tempfile.tempdir
        tempfile.tempdir = tmpdir
        sim = None
        try:
            sim = maildir_sim(base, layout=layout, bad_command_limit=None)
            _provision(sim)
            if not _WARM['done']:       # lazy imports happen untraced
                _bob_view(sim)
                _WARM['done'] = True
            store = os.path.join(base, 'alice')
            assert os.path.isdir(store), os.listdir(base)
            bob_before = _bob_view(sim)
            tree_before = fsmon.tree_fingerprint(scratch)
            c = sim.connect()
            c.take()
            assert b'a OK' in c.cmd(b'a LOGIN alice pwalice\r\n')
            c.cmd(b'a SELECT INBOX\r\n')
            import pymap
            import harness
            interp = (sys.prefix, sys.base_prefix, '/repo', '/verif',
                      os.path.dirname(os.path.dirname(pymap.__file__)),
                      os.path.dirname(os.path.dirname(harness.__file__)),
                      '/usr/share/zoneinfo', '/etc', '/dev', '/usr/lib',
                      '/proc')
            mon = fsmon.FsMon(allowed_root=store,
                              read_ok=interp + (tmpdir,),
                              write_ok=(tmpdir,))
            mon.forbid_root_itself = True
            with mon:
                for i, (what, cmd) in enumerate(_program(enc)):
                    if c.done:
                        break
                    nviol = len(mon.violations)
                    c.cmd(b'a%d ' % i + cmd + b'\r\n')
                    for v in mon.violations[nviol:]:
                        kind = 'mutates' if v.op in fsmon.MUTATORS \
                            else 'reads'
                        rel = os.path.relpath(v.path, base)
                        where = ('the store directory itself'
                                 if v.path == store else
                                 'another user\'s store'
                                 if rel.startswith('bob') else
                                 'the base directory' if not rel.startswith(
                                     '..') else 'outside the base directory')
                        out.fail(f'path-escape:{kind}:{layout}:{where}',
                                 f'{what} with name {name!r} ({layout}): '
                                 f'{v}')
            out.counters['fs_calls_traced'] = len(mon.trace)
            tree_after = fsmon.tree_fingerprint(scratch)
            # alice's own store and the tmp dir may change, nothing else
            def others(tree: Any) -> Any:
                pa = os.path.relpath(store, scratch)
                pt = os.path.relpath(tmpdir, scratch)
                return [t for t in tree if not t[0].startswith(pa + '/')
                        and not t[0].startswith(pt + '/')
                        and t[0] not in (pa + '/', pt + '/')]
            if others(tree_after) != others(tree_before):
                diff = sorted(set(others(tree_after)) ^ set(
                    others(tree_before)))[:6]
                out.fail(f'files-outside-the-store-changed:{layout}',
                         f'name {name!r}: {diff}')
            bob_after = _bob_view(sim)
            if bob_after != bob_before:
                out.fail(f'other-user-sees-a-change:{layout}',
                         f'name {name!r}')
        finally:
            tempfile.tempdir = old_tmp
            if sim is not None:
                sim.close()
            shutil.rmtree(scratch, ignore_errors=True)
    out.label(backend)
    if _nontrivial(name):
        out.nontrivial = case_hash([backend, name])
    out.sample = {'backend': backend, 'name': name[:60]}
    return out
