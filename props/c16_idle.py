"""C16 - IDLE delivers every change without further stimulus.

1-2 idling sessions and 1-2 writers; a schedule of <= 30 actions drawn from
{a writer's APPEND / STORE / EXPUNGE command is fed to the server, the loop
runs k iterations (0..6), an idler's write gate is closed / opened}. The
harness owns the schedule: commands are fed without waiting for completion,
so a second change lands while the idler is still writing the first
notification or re-arming its wait. At the end all gates are opened and the
loop runs until nothing is runnable (maildir: plus 3 virtual seconds) -
without DONE and without further mailbox activity - and every idler's
shadow client must equal the mailbox. Then DONE must give the tagged OK (any
other line: tagged BAD).
"""
from __future__ import annotations

import re
import shutil
import tempfile
from typing import Any

from hypothesis import strategies as st

from harness.client import Client, probe_dump, make_message
from harness.runner import CaseOut, case_hash

ID = 'C16'
LEVEL = 'exploration'
RULE = ('cases = (backend, number of idlers 1-2 and writers 1-2, initial '
        'messages, schedule of <= 30 actions). Non-trivial = a change was '
        'fed while an idler could be between consuming one notification and '
        're-arming its wait: fewer than 6 loop iterations after the previous '
        'change, or while that idler\'s write gate was closed; distinct by '
        'case hash.')
ASSUMPTIONS = ['asyncio subsystem; the harness produces only schedules a '
               'real event loop can produce (FIFO ready queue, back-pressure '
               'through drain(), virtual timers)',
               'maildir IDLE polls once per (virtual) second: "finitely many '
               'steps" is taken as quiescence plus 3 virtual seconds']
BUDGET = {'quick': (150, 16), 'thorough': (4000, 16)}

ACTS = ['append', 'append', 'store', 'store', 'delete-expunge', 'run', 'run',
        'run', 'gate-close', 'gate-open']


def strategy(tier: str) -> Any:
    act = st.tuples(st.sampled_from(ACTS), st.integers(0, 1),
                    st.integers(0, 6), st.integers(0, 20)).map(list)
    return st.fixed_dictionaries({
        'backend': st.sampled_from(['dict', 'dict', 'dict', 'maildir']),
        'idlers': st.integers(1, 2),
        'writers': st.integers(1, 2),
        'init': st.integers(0, 3),
        'done_garbage': st.booleans(),
        'pre': st.lists(st.integers(0, 11), max_size=2),
        'pre_cmd': st.lists(st.integers(0, 3), min_size=2, max_size=2),
        'late': st.tuples(st.integers(0, 3), st.integers(0, 4)).map(list),
        'schedule': st.lists(act, min_size=2, max_size=30),
    })


def run_case(case: dict[str, Any]) -> CaseOut:
    from harness.servers import dict_sim, maildir_sim
    out = CaseOut()
    backend = case['backend']
    tmp = None
    if backend == 'dict':
        sim = dict_sim()
    else:
        tmp = tempfile.mkdtemp(prefix='c16-')
        sim = maildir_sim(tmp)
    nt = False
    try:
        setup = Client(sim, prefix=b's')
        setup.login('alice')
        for i in range(case['init']):
            m = make_message('i%d' % i)
            setup.command(b'APPEND INBOX {%d+}' % len(m), m)
        setup.command(b'LOGOUT')
        pending = []
        for k in range(case['idlers']):
            c = Client(sim, prefix=b'i%d-' % k)
            c.login('alice')
            c.select(b'INBOX', learn=True)
            pending.append(c)
        writers = []
        for k in range(case['writers']):
            w = Client(sim, prefix=b'w%d-' % k)
            w.login('alice')
            w.select(b'INBOX', learn=False)
            writers.append(w)
        vid = 0
        # changes made after the idlers' last command and before their IDLE:
        # they are still unreported when IDLE starts
        for x in case.get('pre') or []:
            w = writers[x % len(writers)]
            kind = (x // 2) % 3
            if kind == 0:
                vid += 1
                m = make_message('p%d' % vid)
                w.command(b'APPEND INBOX {%d+}' % len(m), m)
            elif kind == 1:
                w.command(b'STORE 1:* +FLAGS.SILENT (\\Answered)')
            else:
                w.command(b'STORE 1 +FLAGS.SILENT (\\Deleted)')
                w.command(b'EXPUNGE')
            out.label('change-pending-at-idle-start')
        idlers = []
        for j, c in enumerate(pending):
            # the idler's last command before IDLE may be a non-UID one: an
            # expunge it had to hold back then must still arrive during IDLE
            pc = (case.get('pre_cmd') or [0, 0])[j % 2]
            if pc and c.shadow.view:
                c.command([b'FETCH 1:* (FLAGS)', b'SEARCH ALL',
                           b'STORE 1 +FLAGS (\\Seen)'][pc - 1],
                          nonuid_data_cmd=True)
                out.label('nonuid-command-right-before-idle')
            tag = c.next_tag()
            raw = c.raw_send(tag + b' IDLE\r\n')
            assert b'+ Idling.\r\n' in raw, raw
            for r in c.parse(raw):
                c.shadow.apply(r)
            idlers.append((c, tag))
        since_change = 99
        changes = 0
        for act, who, k, x in case['schedule']:
            if act == 'run':
                sim.step(k)
                since_change += k
                continue
            if act.startswith('gate'):
                c, _ = idlers[who % len(idlers)]
                if act == 'gate-close':
                    c.conn.writer.gate.clear()
                else:
                    c.conn.writer.gate.set()
                continue
            w = writers[who % len(writers)]
            if w.conn.done:
                continue
            if since_change < 6 or any(
                    not c.conn.writer.gate.is_set() for c, _ in idlers):
                if changes:
                    nt = True
                    out.label('change-inside-rearm-window')
            tag = w.next_tag()
            if act == 'append':
                vid += 1
                m = make_message('v%d' % vid)
                w.conn.feed(tag + b' APPEND INBOX {%d+}\r\n' % len(m) + m
                            + b'\r\n')
            elif act == 'store':
                mode = [b'+FLAGS', b'-FLAGS', b'FLAGS'][x % 3]
                fl = [b'\\Flagged', b'\\Seen', b'\\Answered'][x % 3]
                w.conn.feed(tag + b' STORE 1:* ' + mode + b'.SILENT (' + fl
                            + b')\r\n')
            else:
                w.conn.feed(tag + b' STORE * +FLAGS.SILENT (\\Deleted)\r\n')
                tag2 = w.next_tag()
                w.conn.feed(tag2 + b' EXPUNGE\r\n')
            changes += 1
            since_change = 0
            sim.step(k % 3)
            since_change += k % 3
        # the end: no DONE, no further mailbox activity
        for c, _ in idlers:
            c.conn.writer.gate.set()
        sim.settle(advance=3.0 if backend == 'maildir' else 0.0)
        for w in writers:
            w.conn.take()
        truth = probe_dump(sim, 'alice', b'INBOX')
        assert truth is not None
        sim.settle()      # the probe itself must not be what wakes anybody
        t_uids = truth['order']
        for k, (c, tag) in enumerate(idlers):
            before_probe = c.poll()
            sh = c.shadow
            for sig, msg in sh.errors:
                out.fail(sig, f'idler {k}: {msg} ({backend})')
            sh.errors.clear()
            desc = f'idler {k} holds {sh.view} ' \
                   f'{[sorted(f) if f is not None else None for f in sh.flags]}'\
                   f', mailbox has {[(u, sorted(truth["messages"][u]["flags"])) for u in t_uids]}' \
                   f' ({backend}, {changes} changes)'
            if len(sh.view) != len(t_uids):
                out.fail('idle-missed-update:count',
                         f'without DONE and with nothing runnable, {desc}')
                continue
            for p, (u, fl) in enumerate(zip(sh.view, sh.flags)):
                tu = t_uids[p]
                if u is not None and u != tu:
                    out.fail('idle-view-wrong-uid',
                             f'position {p + 1}: {desc}')
                    break
                tf = truth['messages'][tu]['flags'] - {b'\\recent'}
                if fl is not None and fl - {b'\\recent'} != tf:
                    out.fail('idle-missed-update:flags',
                             f'position {p + 1}: {desc}')
                    break
        # one more change that lands while the client is already ending the
        # IDLE: fed, then 0-4 loop iterations, then DONE without waiting. It
        # may be reported before or after the tagged OK - but a NOOP later
        # the idler must have it (nothing is lost around DONE)
        late = case.get('late') or [0, 0]
        late_fed = False
        if late[0] and not out.failures and writers and \
                not writers[0].conn.done:
            w = writers[0]
            tag_w = w.next_tag()
            if late[0] == 1:
                vid += 1
                m = make_message('late%d' % vid)
                w.conn.feed(tag_w + b' APPEND INBOX {%d+}\r\n' % len(m) + m
                            + b'\r\n')
            elif late[0] == 2:
                w.conn.feed(tag_w + b' STORE 1:* +FLAGS.SILENT (\\Draft)\r\n')
            else:
                w.conn.feed(tag_w + b' STORE 1 +FLAGS.SILENT (\\Deleted)\r\n')
                w.conn.feed(w.next_tag() + b' EXPUNGE\r\n')
            sim.step(late[1])
            late_fed = True
            out.label('change-lands-while-done-is-sent')
        # DONE ends IDLE with the tagged OK, anything else with BAD
        for k, (c, tag) in enumerate(idlers):
            garbage = case['done_garbage'] and k == 0
            raw = c.raw_send(b'WHAT\r\n' if garbage else b'DONE\r\n',
                             advance=1.5)
            want = b'BAD' if garbage else b'OK'
            if not re.search(rb'(^|\r\n)' + re.escape(tag) + b' ' + want,
                             raw):
                out.fail('idle-termination-wrong',
                         f'{"WHAT" if garbage else "DONE"} -> {raw!r}, '
                         f'expected tagged {want.decode()} ({backend})')
            elif late_fed:
                for r in c.parse(raw):
                    c.shadow.apply(r)
        if late_fed and not out.failures:
            sim.settle(advance=3.0 if backend == 'maildir' else 0.0)
            for w in writers:
                w.conn.take()
            truth = probe_dump(sim, 'alice', b'INBOX')
            assert truth is not None
            for k, (c, tag) in enumerate(idlers):
                if c.conn.done:
                    continue
                c.command(b'NOOP')
                unknown = [i + 1 for i, u in enumerate(c.shadow.view)
                           if u is None or c.shadow.flags[i] is None]
                if unknown:
                    c.command(b'FETCH %d:%d (UID FLAGS)' % (
                        unknown[0], unknown[-1]), nonuid_data_cmd=True)
                for sig, msg in c.shadow.errors:
                    out.fail(sig, f'idler {k} around DONE: {msg}')
                c.shadow.errors.clear()
                have = {u: f - {b'\\recent'}
                        for u, f in c.shadow.uid_flags().items()}
                want = {u: m['flags'] - {b'\\recent'}
                        for u, m in truth['messages'].items()}
                if have != want:
                    out.fail('change-lost-around-done',
                             f'idler {k}: a change fed {late[1]} loop '
                             f'iterations before DONE; after the tagged OK '
                             f'and a NOOP it holds {have}, the mailbox has '
                             f'{want} ({backend})')
    finally:
        sim.close()
        if tmp:
            shutil.rmtree(tmp, ignore_errors=True)
    out.label(backend, 'idlers=%d' % case['idlers'],
              'writers=%d' % case['writers'])
    out.counters['changes'] = changes
    if nt:
        out.nontrivial = case_hash(case)
    out.sample = {'backend': backend, 'idlers': case['idlers'],
                  'writers': case['writers'],
                  'schedule': [a[:3] for a in case['schedule'][:14]]}
    return out
