"""C20 - lock primitives give the exclusion they document.

Domain: 2..4 tasks, each a program of read/write acquisitions with a harness
gate before each acquisition and one inside each critical section. The
schedule is a list of actions (release one permit to task i / cancel task i);
after each action the loop is run to quiescence, so the lock's own wake-ups
happen exactly as asyncio orders them.

Oracle (over the enter/exit log): rw-lock - never two writers inside, never a
writer and a reader inside; FileLock - never two writers inside. When every
gate is finally opened every non-cancelled task finishes (no deadlock); then
a fresh writer and a fresh reader still obtain the lock, exclusion still
holds for them, and (FileLock) the lock file is gone.
"""
from __future__ import annotations

import asyncio
import itertools
import os
import shutil
import tempfile
from typing import Any

from hypothesis import strategies as st

from harness.runner import CaseOut, case_hash
from harness.simloop import VLoop, NoQuiescence

ID = 'C20'
LEVEL = 'exploration'
RULE = ('cases = (lock kind, per-task programs of r/w acquisitions with an '
        'optional exception inside the critical section, schedule of '
        'permit/cancel actions); exhaustive over all schedules of 3 tasks x 1 '
        'acquisition (with one optional cancel at every position) and of 2 '
        'tasks x 2 acquisitions, Hypothesis beyond. Non-trivial = some task '
        'had to wait for the lock (requested it and was not inside after the '
        'loop went idle) or a cancel hit a waiting task; distinct by '
        '(kind, programs, schedule).')
EXHAUSTIVE_NOTE = ('all permit interleavings of 3 tasks x 1 acquisition '
                   '(r/w each) with zero or one cancel at every position, and '
                   'all of 2 tasks x 2 acquisitions; both lock kinds')
ASSUMPTIONS = ['the asyncio classes are decided on schedules the harness owns; '
               'the threading twins (what the maildir CLI uses) additionally '
               'run under real OS threads with a 1 us switch interval, where '
               'only an observed overlap counts and a quiet run proves '
               'nothing (coverage.thread_contended_entries says how often '
               'threads actually met)',
               'FileLock expiry (600 s by wall clock) is not exercised']
BUDGET = {'quick': (150, 16), 'thorough': (3000, 16)}

_scratch: dict[str, Any] = {}


def shard_setup(shard: int) -> None:
    _scratch['dir'] = tempfile.mkdtemp(prefix='c20-')
    _scratch['n'] = 0


def shard_teardown(shard: int) -> None:
    shutil.rmtree(_scratch.pop('dir', ''), ignore_errors=True)


class _Gate:
    def __init__(self) -> None:
        self.permits = 0
        self.ev = asyncio.Event()

    async def wait(self) -> None:
        while self.permits == 0:
            self.ev.clear()
            await self.ev.wait()
        self.permits -= 1

    def release(self, n: int = 1) -> None:
        self.permits += n
        self.ev.set()


class _Boom(Exception):
    pass


def _settle(loop: VLoop, advance: float, max_steps: int = 5000) -> None:
    deadline = loop._vt + advance
    n = 0
    while True:
        loop.call_soon(loop.stop)
        loop.run_forever()
        n += 1
        if n > max_steps:
            raise NoQuiescence(n)
        if loop._ready:  # type: ignore[attr-defined]
            continue
        live = [h._when for h in loop._scheduled  # type: ignore
                if not h._cancelled]
        if live and min(live) <= deadline:
            loop._vt = max(loop._vt, min(live))
            continue
        return


def _thread_case(case: dict[str, Any]) -> CaseOut:
    """The threading twins under real OS threads (the harness does not own
    this schedule: an observed overlap is a fact, a quiet run proves
    nothing). Every thread runs its own event loop, as
    _ThreadingSubsystem._run_in_thread does; the interpreter's switch
    interval is set to 1 us so that threads interleave inside the lock's own
    bookkeeping. Only exclusion is judged; a thread that has not finished
    after 60 s is counted as inconclusive."""
    import sys
    import threading
    import time
    from pymap.concurrent import ReadWriteLock, FileLock
    out = CaseOut()
    lk = case['lock']
    path = None
    if lk == 'file':
        if 'dir' not in _scratch:
            shard_setup(0)
        _scratch['n'] += 1
        path = os.path.join(_scratch['dir'], 'tlock%d' % _scratch['n'])
        # many short retries instead of the default back-off up to 1 s
        lock: Any = FileLock(path, read_retry_delay=[0.0005] * 20000,
                             write_retry_delay=[0.0005] * 20000) \
            if _filelock_takes_delays() else FileLock(path)
    else:
        lock = ReadWriteLock.for_threading()
    guard = threading.Lock()
    inside = {'r': 0, 'w': 0}
    bad: list[str] = []
    entries = [0]
    contended = [0]

    def enter(mode: str) -> None:
        with guard:
            if inside['r'] or inside['w']:
                contended[0] += 1
            if mode == 'w' and inside['w']:
                bad.append('two-writers-inside:threads:' + lk)
            if lk == 'rw' and mode == 'w' and inside['r']:
                bad.append('writer-overlaps-reader:threads')
            if lk == 'rw' and mode == 'r' and inside['w']:
                bad.append('reader-overlaps-writer:threads')
            inside[mode] += 1
            entries[0] += 1

    def leave(mode: str) -> None:
        with guard:
            inside[mode] -= 1

    async def body(modes: list[str], pause: int) -> None:
        for i, mode in enumerate(modes):
            cm = lock.read_lock() if mode == 'r' else lock.write_lock()
            async with cm:
                enter(mode)
                for _ in range(pause):
                    time.sleep(0)          # let other threads run
                leave(mode)

    def worker(modes: list[str], pause: int) -> None:
        loop = asyncio.new_event_loop()
        try:
            loop.run_until_complete(body(modes, pause))
        except TimeoutError:
            with guard:
                bad.append('inconclusive:lock-wait-timed-out')
        finally:
            loop.close()

    old = sys.getswitchinterval()
    sys.setswitchinterval(1e-6)
    try:
        threads = [threading.Thread(target=worker, daemon=True,
                                    args=(list(m) * case['repeat'], pz))
                   for m, pz in zip(case['modes'], case['pause'])]
        for t in threads:
            t.start()
        deadline = time.monotonic() + 60
        for t in threads:
            t.join(max(0.0, deadline - time.monotonic()))
        stuck = [t for t in threads if t.is_alive()]
    finally:
        sys.setswitchinterval(old)
    for sig in sorted(set(bad)):
        if sig.startswith('inconclusive'):
            out.label(sig)
        else:
            out.fail(sig, f'{sig} with thread programs {case["modes"]} x '
                     f'{case["repeat"]}, pauses {case["pause"]}')
    if stuck:
        out.label('inconclusive:threads-not-finished-after-60s')
    elif lk == 'file' and path and os.path.exists(path) and not bad:
        out.fail('lock-file-left-behind:threads',
                 f'{path} exists after all threads finished')
    out.label('threads', 'threads:' + lk)
    out.counters['thread_critical_sections'] = entries[0]
    out.counters['thread_contended_entries'] = contended[0]
    if len(case['modes']) >= 2 and any('w' in m for m in case['modes']):
        out.nontrivial = case_hash(case)
    out.sample = {'kind': 'threads', 'lock': lk, 'modes': case['modes'],
                  'repeat': case['repeat']}
    return out


def _filelock_takes_delays() -> bool:
    import inspect
    from pymap.concurrent import FileLock
    ps = inspect.signature(FileLock.__init__).parameters
    return 'read_retry_delay' in ps and 'write_retry_delay' in ps


def run_case(case: dict[str, Any]) -> CaseOut:
    from pymap.concurrent import ReadWriteLock, FileLock
    if case.get('kind') == 'threads':
        return _thread_case(case)
    out = CaseOut()
    kind = case['kind']
    progs = case['progs']
    schedule = case['schedule']
    loop = VLoop()
    log: list[tuple[Any, ...]] = []
    inside: dict[tuple[int, int], str] = {}
    waited = False
    path = None
    if kind == 'file':
        if 'dir' not in _scratch:
            shard_setup(0)
        _scratch['n'] += 1
        path = os.path.join(_scratch['dir'], 'lock%d' % _scratch['n'])
        lock: Any = FileLock(path)
    else:
        lock = ReadWriteLock.for_asyncio()
    gates = [_Gate() for _ in progs]
    wanting: set[tuple[int, int]] = set()
    timeouts: set[int] = set()

    def check_enter(who: tuple[int, int], mode: str) -> None:
        writers = [k for k, m in inside.items() if m == 'w']
        readers = [k for k, m in inside.items() if m == 'r']
        if mode == 'w' and writers:
            out.fail('two-writers-inside:' + kind,
                     f'writer {who} entered while writer {writers[0]} is '
                     f'inside; log={log}')
        if kind == 'rw':
            if mode == 'w' and readers:
                out.fail('writer-overlaps-reader',
                         f'writer {who} entered while reader {readers[0]} '
                         f'is inside; log={log}')
            if mode == 'r' and writers:
                out.fail('reader-overlaps-writer',
                         f'reader {who} entered while writer {writers[0]} '
                         f'is inside; log={log}')

    async def prog(i: int, ops: list[Any]) -> None:
        for j, (mode, boom) in enumerate(ops):
            await gates[i].wait()
            wanting.add((i, j))
            log.append(('want', i, j, mode))
            cm = lock.read_lock() if mode == 'r' else lock.write_lock()
            try:
                async with cm:
                    wanting.discard((i, j))
                    check_enter((i, j), mode)
                    inside[(i, j)] = mode
                    log.append(('in', i, j, mode))
                    try:
                        await gates[i].wait()
                        if boom:
                            raise _Boom()
                    finally:
                        del inside[(i, j)]
                        log.append(('out', i, j, mode))
            except _Boom:
                pass
            except asyncio.TimeoutError:
                wanting.discard((i, j))
                timeouts.add(i)
                log.append(('timeout', i, j, mode))
            finally:
                wanting.discard((i, j))

    tasks = [loop.create_task(prog(i, ops)) for i, ops in enumerate(progs)]
    cancelled: set[int] = set()
    try:
        _settle(loop, 0)
        for action, i in schedule:
            if i >= len(tasks):
                continue
            if action == 'go':
                gates[i].release()
            elif action == 'cancel':
                if any(w[0] == i for w in wanting):
                    out.label('cancel-on-waiter')
                    waited = True
                elif any(k[0] == i for k in inside):
                    out.label('cancel-inside')
                if not tasks[i].done():
                    tasks[i].cancel()
                    cancelled.add(i)
                    log.append(('cancel', i))
            _settle(loop, 0.3 if kind == 'file' else 0)
            if wanting:
                waited = True
        # end phase: open everything
        for g in gates:
            g.release(100)
        _settle(loop, 60.0)
        for i, t in enumerate(tasks):
            if not t.done():
                out.fail('deadlock:' + kind,
                         f'task {i} never finished after all gates were '
                         f'opened; log={log}')
            elif not t.cancelled() and t.exception() is not None:
                raise t.exception()  # harness bug
        if inside:
            out.fail('stuck-inside:' + kind, f'{inside} log={log}')
        # the lock must still be usable and exclusive
        if kind == 'file' and os.path.exists(path):
            out.fail('lockfile-not-released',
                     f'lock file still present after every holder left; '
                     f'log={log}')
        n0 = len(tasks)
        g2 = [_Gate(), _Gate()]
        gates.extend(g2)
        fresh = [loop.create_task(prog(n0, [['w', False]])),
                 loop.create_task(prog(n0 + 1, [['r', False]]))]
        for g in g2:
            g.release(100)
        _settle(loop, 60.0)
        for k, t in enumerate(fresh):
            if not t.done() or (n0 + k) in timeouts:
                out.fail('unusable-after:' + kind,
                         f'a fresh {"wr"[k]} could not take the lock after '
                         f'the schedule; log={log}')
        if kind == 'file' and os.path.exists(path):
            out.fail('lockfile-not-released',
                     f'lock file present after fresh writer; log={log}')
    except NoQuiescence:
        out.fail('no-quiescence:' + kind, f'log={log}')
    finally:
        for t in asyncio.all_tasks(loop):
            t.cancel()
        try:
            _settle(loop, 60.0)
        except NoQuiescence:
            pass
        for t in tasks:
            if t.done() and not t.cancelled():
                t.exception()
        loop.close()
        if path is not None:
            try:
                os.unlink(path)
            except OSError:
                pass
    out.label(kind)
    if timeouts:
        out.label('filelock-timeout')
    if waited:
        out.label('waited')
        out.nontrivial = case_hash(case)
    out.sample = {'kind': kind, 'progs': progs, 'schedule': schedule,
                  'log': [list(e) for e in log[:24]]}
    return out


# -- generation ---------------------------------------------------------------

def _interleavings(counts: list[int]) -> Any:
    """All sequences over task indices where task i occurs counts[i] times."""
    items: list[int] = []
    for i, c in enumerate(counts):
        items += [i] * c
    seen = set()
    for perm in itertools.permutations(items):
        if perm not in seen:
            seen.add(perm)
            yield perm


def enumerate_cases(tier: str) -> Any:
    for kind in ('rw', 'file'):
        # 3 tasks x 1 acquisition: each needs 2 permits
        for modes in itertools.product('rw', repeat=3):
            progs = [[[m, False]] for m in modes]
            for inter in _interleavings([2, 2, 2]):
                sched = [['go', i] for i in inter]
                yield {'kind': kind, 'progs': progs, 'schedule': sched}
                if tier == 'quick' and kind == 'file':
                    continue
                for pos in range(1, len(sched)):
                    for victim in range(3):
                        s2 = sched[:pos] + [['cancel', victim]] + sched[pos:]
                        yield {'kind': kind, 'progs': progs, 'schedule': s2}
        # 2 tasks x 2 acquisitions, exception inside the first one of task 0
        for modes in itertools.product('rw', repeat=4):
            for boom in (False, True):
                progs = [[[modes[0], boom], [modes[1], False]],
                         [[modes[2], False], [modes[3], False]]]
                for inter in _interleavings([4, 4]):
                    yield {'kind': kind, 'progs': progs,
                           'schedule': [['go', i] for i in inter]}


def strategy(tier: str) -> Any:
    op = st.tuples(st.sampled_from('rw'), st.booleans().map(
        lambda b: False) | st.booleans()).map(list)
    progs = st.lists(st.lists(op, min_size=1, max_size=3),
                     min_size=2, max_size=4)
    action = st.tuples(
        st.sampled_from(['go', 'go', 'go', 'go', 'go', 'cancel']),
        st.integers(0, 3)).map(list)
    owned = st.fixed_dictionaries({
        'kind': st.sampled_from(['rw', 'rw', 'file']),
        'progs': progs,
        'schedule': st.lists(action, min_size=2, max_size=16),
    })
    # the threading twins under real threads (a minority: each case takes
    # tens of milliseconds and its schedule is the operating system's)
    n = st.shared(st.integers(2, 5), key='nthreads')
    threads = st.fixed_dictionaries({
        'kind': st.just('threads'),
        'lock': st.sampled_from(['rw', 'rw', 'rw', 'file']),
        'modes': n.flatmap(lambda k: st.lists(
            st.text('rw', min_size=1, max_size=4), min_size=k, max_size=k)),
        'pause': n.flatmap(lambda k: st.lists(
            st.integers(0, 3), min_size=k, max_size=k)),
        'repeat': st.sampled_from([5, 20, 60]),
    })
    return st.one_of(owned, owned, owned, owned, owned, threads)
