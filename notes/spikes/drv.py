import asyncio, sys, os, tempfile, shutil
from argparse import Namespace
from contextlib import closing, AsyncExitStack
from pysasl.hashing import BuiltinHash
from proxyprotocol.sock import SocketInfoLocal
from pymap.concurrent import Subsystem
from pymap.context import connection_exit
from pymap.imap import IMAPServer, IMAPConnection
from pymap.imap.state import ConnectionState

class Args(Namespace):
    debug=False; demo_data=False; demo_user='u1'; demo_password='p1'
    def __getattr__(self,k): return None

class Writer:
    def __init__(self): self.buf=bytearray(); self.closed=False; self.gate=asyncio.Event(); self.gate.set()
    def write(self,d): self.buf+=d
    async def drain(self): await self.gate.wait()
    def close(self): self.closed=True
    def get_extra_info(self,name,default=None):
        if name=='peername': return ('1.2.3.4',1234)
        if name=='sockname': return ('5.6.7.8',143)
        if name=='socket':
            class S:
                family=2
                def fileno(s): return 7
            return S()
        return default

HC = BuiltinHash(hash_name='sha1',salt_len=0,rounds=1)

class Sim:
    def __init__(self, login, config):
        self.login=login; self.config=config; self.loop=asyncio.get_running_loop(); self.sessions=[]
    async def settle(self, advance=False):
        n=0; loop=self.loop
        while True:
            await asyncio.sleep(0); n+=1
            if loop._ready: 
                if n>100000: raise RuntimeError('noquiesce')
                continue
            live=[h for h in loop._scheduled if not h._cancelled]
            if live and advance:
                loop._vt = max(getattr(loop,'_vt',0.0), min(h._when for h in live)); continue
            return n
    async def connect(self):
        r=asyncio.StreamReader(); w=Writer()
        conn = IMAPConnection(self.config.commands, self.config, r, w, SocketInfoLocal(w))
        state = ConnectionState(self.login, self.config)
        async def run():
            async with AsyncExitStack() as stack:
                connection_exit.set(stack); stack.enter_context(closing(conn)); await conn.run(state)
        t=asyncio.create_task(run())
        s=Namespace(r=r,w=w,t=t,state=state,n=len(self.sessions)); self.sessions.append(s)
        await self.settle(); s.w.buf.clear(); return s
    async def cmd(self, s, line, show=True, advance=False):
        s.r.feed_data(line); await self.settle(advance); out=bytes(s.w.buf); s.w.buf.clear()
        if show: print(f'[{s.n}] >> {line[:80]!r}\n[{s.n}] << {out!r}')
        return out

async def dict_sim(demo=False, **kw):
    from pymap.backend.dict import DictBackend
    a=Args(); 
    if demo: a.demo_data='pymap.backend.dict'
    backend, config = await DictBackend.init(a, hash_context=HC, invalid_user_sleep=0.0, cpu_subsystem=Subsystem.for_asyncio(), **kw)
    return Sim(backend.login, config)

async def maildir_sim(base, layout='++'):
    from pymap.backend.maildir import Config, Login, Identity
    from pymap.user import UserMetadata, Passwords
    config = Config(Args(), base_dir=base, layout=layout, colon=None, host=None, port=143, hash_context=HC, invalid_user_sleep=0.0,
                    cpu_subsystem=Subsystem.for_asyncio(), subsystem=Subsystem.for_asyncio(), tls_enabled=False)
    login = Login(config)
    for name in ('alice','bob'):
        ident = Identity(config, login.tokens, name, None, {'admin'})
        pw = await Passwords(config).hash_password('pw'+name)
        await ident.set(UserMetadata(config, name, password=pw))
    return Sim(login, config)
