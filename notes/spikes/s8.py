import sys, traceback, signal, collections, random
from pymap.parsing import Params
from pymap.parsing.commands import Commands
from pymap.parsing.state import ParsingState, ParsingInterrupt
from pymap.parsing.exceptions import NotParseable
cmds = Commands()
class Hang(BaseException): pass
def h(*a): raise Hang()
signal.signal(signal.SIGVTALRM, h)
rnd = random.Random(1)
words = [b'NOOP', b'LOGIN', b'SELECT', b'EXAMINE', b'CREATE', b'DELETE', b'RENAME', b'LIST', b'LSUB', b'STATUS', b'APPEND', b'FETCH', b'STORE', b'SEARCH', b'COPY', b'MOVE', b'UID FETCH', b'UID SEARCH', b'UID STORE', b'UID COPY', b'UID EXPUNGE', b'ID', b'AUTHENTICATE', b'SUBSCRIBE', b'IDLE', b'EXPUNGE', b'UID MOVE', b'CAPABILITY']
atoms = [b'INBOX', b'&', b'&AOk', b'&-', b'&A-', b'"a b"', b'"', b'(', b')', b'((((', b'{3+}\r\nabc', b'{3}\r\n', b'~{2+}\r\nxy', b'1:*', b'*', b'1,2', b'0', b'99999999999999999999', b'(\\Seen)', b'(FLAGS)', b'BODY[]', b'BODY[HEADER.FIELDS (a "b")]', b'BODY[1.2.MIME]<0.1>', b'BINARY[1]', b'+FLAGS', b'FLAGS.SILENT', b'CHARSET', b'utf-8', b'hex', b'\xff\xfe', b'\x00', b'NOT', b'OR', b'HEADER', b'SINCE', b'1-Jan-2020', b'"01-Jan-2020 00:00:00 +0000"', b'LARGER', b'TEXT', b'KEYWORD', b'UID', b'ALL', b'(MESSAGES)', b'%', b'""', b'NIL', b'("a" "b")', b'RETURN', b'(MIN)', b'\\Recent', b'[', b']', b'<1.2>', b'a'*70, b'EMAILID', b'M123', b'PLAIN', b'=', b' ', b'\t', b'BODY.PEEK[TEXT]', b'RFC822.SIZE', b'utf-16', b'idna', b'X\xc3\xa9']
def gen():
    k = rnd.random()
    if k < 0.1:
        return bytes(rnd.randrange(256) for _ in range(rnd.randrange(40))) + b'\r\n'
    parts = [b'a1', rnd.choice(words)] + [rnd.choice(atoms) for _ in range(rnd.randrange(0,6))]
    line = b' '.join(parts)
    if k < 0.3:
        ba = bytearray(line)
        for _ in range(rnd.randrange(1,3)):
            if ba: ba[rnd.randrange(len(ba))] = rnd.randrange(256)
        line = bytes(ba)
    return line + b'\r\n'
buckets = collections.Counter(); ex = {}
N = int(sys.argv[1])
for i in range(N):
    line = gen()
    conts = []
    try:
        signal.setitimer(signal.ITIMER_VIRTUAL, 2.0)
        for _ in range(5):
            try:
                cmds.parse(memoryview(line), Params(ParsingState(continuations=[memoryview(c) for c in conts]), max_append_len=1000))
                break
            except ParsingInterrupt as pi:
                n = pi.expected.literal_length
                conts.append(b'x'*n + b' INBOX\r\n')
        signal.setitimer(signal.ITIMER_VIRTUAL, 0)
    except Hang:
        key=('HANG',); buckets[key]+=1; ex.setdefault(key,line)
    except BaseException as e:
        signal.setitimer(signal.ITIMER_VIRTUAL, 0)
        tb = traceback.extract_tb(e.__traceback__)
        fr = [f for f in tb if '/repo/pymap/' in f.filename][-1]
        key=(type(e).__name__, fr.filename.replace('/repo/',''), fr.name)
        buckets[key]+=1; ex.setdefault(key,line)
for k,v in buckets.most_common(): print(v, k, ex[k][:90])
