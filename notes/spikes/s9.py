import sys, traceback, signal, collections, random
from pymap.mime import MessageContent
from pymap.message import BaseLoadedMessage
from pymap.backend.dict.mailbox import Message as BaseMessage
from pymap.parsing.specials import FetchRequirement
from pymap.threads import ThreadKey
from pymap.mime.cte import MessageDecoder
from datetime import datetime
class Hang(BaseException): pass
def h(*a): raise Hang()
signal.signal(signal.SIGVTALRM, h)
rnd = random.Random(int(sys.argv[2]) if len(sys.argv)>2 else 1)
names = [b'Date', b'Subject', b'From', b'To', b'Cc', b'Bcc', b'Sender', b'Reply-To', b'Message-Id', b'In-Reply-To', b'References', b'Content-Type', b'Content-Disposition', b'Content-Transfer-Encoding', b'Content-Id', b'Content-Language', b'Content-Location', b'Content-Description', b'X-Foo']
vals = [b'', b' ', b'x', b'Mon, 1 Jan 2020 00:00:00 +0000', b'not a date', b'32 Foo 99999 25:61:61 +9999', b'1 Jan 2020', b're: '*1200+b'x', b'[a] '*600, b'fwd:re:[x]', b'a@b', b'A B <a@b>', b'"A \\" B" <a@b>, c@d', b'group: a@b, c@d;', b'<', b'>', b'<>', b'@', b'a@b@c', b',,,', b'(comment', b'"unterminated', b'=?utf-8?q?=C3=A9?=', b'=?utf-8?b?!!!?=', b'=?x?q?a?=', b'\xff\xfe', b'a\rb', b'a\x00b', b'multipart/mixed; boundary=xx', b'multipart/mixed; boundary="', b'multipart/mixed', b'message/rfc822', b'text/plain; charset="utf-8"; name*=utf-8\'\'%C3%A9', b'text/plain; a=b; a=c', b'text/', b'/', b'text/plain; name*0="a"; name*1="b"', b'attachment; filename="a\\"b"', b'inline;', b';;;', b'base64', b'quoted-printable', b'x-unknown', b'7bit', b'8bit', b'binary', b'<id@x>', b'<a> <b> <c>', b'a'*300, b'\t folded\r\n\t more', b'en, fr', b'<' + b'a'*100 + b'>']
bodies = [b'', b'body\r\n', b'--xx\r\n\r\npart1\r\n--xx\r\nContent-Type: message/rfc822\r\n\r\nSubject: inner\r\n\r\nhi\r\n--xx--\r\n', b'--xx\r\n--xx--\r\n', b'--xx', b'SGVsbG8=\r\n', b'!!!not base64!!!', b'=C3=A9=\r\n=ZZ', b'Subject: inner\r\nContent-Type: message/rfc822\r\n\r\n'*30]
def gen():
    hs=[]
    for _ in range(rnd.randrange(0,6)):
        hs.append(rnd.choice(names)+b': '+rnd.choice(vals)+rnd.choice([b'\r\n',b'\n']))
    return b''.join(hs)+rnd.choice([b'\r\n',b'\n',b''])+rnd.choice(bodies)
buckets = collections.Counter(); ex = {}
def touch(raw):
    c = MessageContent.parse(raw)
    ThreadKey.get_all(c.header)
    msg = BaseMessage(1, datetime.now(), [])
    lm = BaseLoadedMessage(msg, FetchRequirement.CONTENT, c)
    bytes(lm.get_envelope_structure()); bytes(lm.get_body_structure()); bytes(lm.get_body_structure().extended)
    for part in c.walk():
        try: MessageDecoder.of(part.header).decode(part.body)
        except NotImplementedError: raise
    lm.contains(b'x'); lm.get_header(b'subject'); lm.get_size()
    for sec in ([], [1], [2], [1,1], [3]):
        bytes(lm.get_body(sec)); bytes(lm.get_body(sec, True)) ; bytes(lm.get_headers(sec)); bytes(lm.get_message_headers(sec, frozenset([b'SUBJECT']))); bytes(lm.get_message_text(sec))
N=int(sys.argv[1])
for i in range(N):
    raw = gen()
    try:
        signal.setitimer(signal.ITIMER_VIRTUAL, 3.0)
        touch(raw)
        signal.setitimer(signal.ITIMER_VIRTUAL, 0)
    except Hang:
        key=('HANG',); buckets[key]+=1; ex.setdefault(key,raw)
    except BaseException as e:
        signal.setitimer(signal.ITIMER_VIRTUAL, 0)
        tb = traceback.extract_tb(e.__traceback__)
        frs = [f for f in tb if '/repo/pymap/' in f.filename]
        fr = frs[-1] if frs else tb[-1]
        key=(type(e).__name__, fr.filename.replace('/repo/',''), fr.name, tb[-1].name)
        buckets[key]+=1; ex.setdefault(key,raw)
for k,v in buckets.most_common(): print(v, k, ex[k][:100])
