import asyncio, sys, os, tempfile, shutil
sys.path.insert(0, __import__('os').path.dirname(__import__('os').path.abspath(__file__)))
from drv import *
from pymap.backend.maildir.layout import MaildirLayout
from pymap.backend.maildir.mailbox import Maildir
for lay in ('++','fs'):
    L = MaildirLayout.get('/base/alice', lay, Maildir)
    for name in ['', '.', '..', '/', 'a/..', '../bob', './x', 'a//b', '../../..', 'a/./b', '.x']:
        print(lay, repr(name), os.path.normpath(L.get_path(name, '/')))
MSG=b'From: a@b\r\nSubject: hello\r\n\r\nbody\r\n'
def app(tag, mbx=b'INBOX', flags=b'', msg=MSG): return b'%s APPEND %s %s{%d+}\r\n%s\r\n'%(tag,mbx,flags,len(msg),msg)
async def main():
    print('--- D19 EXDEV: store on /dev/shm, tmp on /tmp')
    base = tempfile.mkdtemp(prefix='mdspike', dir='/dev/shm')
    try:
        try:
            sim = await maildir_sim(base)
        except Exception as e:
            print('provisioning failed:', repr(e))
            return
        A = await sim.connect()
        await sim.cmd(A, b'a LOGIN alice pwalice\r\n'); 
        await sim.cmd(A, app(b'p1'))
    finally:
        shutil.rmtree(base)
async def main2():
    print('--- D20 claim_recent on maildir')
    base = tempfile.mkdtemp(prefix='mdspike')
    try:
        sim = await maildir_sim(base)
        A = await sim.connect(); B = await sim.connect()
        await sim.cmd(A, b'a LOGIN alice pwalice\r\n', show=False); await sim.cmd(B, b'a LOGIN alice pwalice\r\n', show=False)
        for i in range(6): await sim.cmd(A, app(b'p%d'%i), show=False)
        print(os.listdir(base+'/alice/new'))
        out = await sim.cmd(B, b's SELECT INBOX\r\n', show=False); print([l for l in out.split(b'\r\n') if b'RECENT' in l or b'EXISTS' in l])
        await sim.cmd(B, b'f FETCH 1:* (UID FLAGS)\r\n')
        C = await sim.connect(); await sim.cmd(C, b'a LOGIN alice pwalice\r\n', show=False)
        out = await sim.cmd(C, b's SELECT INBOX\r\n', show=False); print('second selector', [l for l in out.split(b'\r\n') if b'RECENT' in l or b'EXISTS' in l])
    finally:
        shutil.rmtree(base)
asyncio.run(main()); asyncio.run(main2())
