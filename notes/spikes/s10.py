import asyncio, sys, os, tempfile, shutil
sys.path.insert(0, __import__('os').path.dirname(__import__('os').path.abspath(__file__)))
from drv import *
MSG=b'From: a@b\r\nSubject: hello\r\n\r\nbody\r\n'
def app(tag, mbx=b'INBOX', flags=b'', msg=MSG): return b'%s APPEND %s %s{%d+}\r\n%s\r\n'%(tag,mbx,flags,len(msg),msg)
async def main():
    base = '/tmp/spike/mdtrace'
    shutil.rmtree(base, ignore_errors=True); os.mkdir(base)
    sim = await maildir_sim(base, sys.argv[1])
    A = await sim.connect()
    os.write(2, b'=====MARK-START\n')
    for l in [b'a LOGIN alice pwalice\r\n', b'c CREATE foo/bar\r\n', b'u SUBSCRIBE foo/bar\r\n', b's SELECT INBOX\r\n', app(b'p1'), app(b'p2'),
              b'x STORE 1 +FLAGS (\\Deleted \\Flagged)\r\n', b'y COPY 2 foo/bar\r\n', b'z MOVE 2 foo/bar\r\n', b'e EXPUNGE\r\n', b'k CHECK\r\n', b'r RENAME foo/bar baz\r\n', b'd DELETE baz\r\n', b'q LOGOUT\r\n']:
        os.write(2, b'=====CMD ' + l[:30].replace(b'\r\n',b'') + b'\n')
        await sim.cmd(A, l, show=False)
    shutil.rmtree(base)
asyncio.run(main())
