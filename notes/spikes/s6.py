import asyncio, sys
sys.path.insert(0, __import__('os').path.dirname(__import__('os').path.abspath(__file__)))
from drv import *
MSG=b'From: a@b\r\nSubject: hello\r\n\r\nbody\r\n'
def app(tag, mbx=b'INBOX', flags=b'', msg=MSG): return b'%s APPEND %s %s{%d+}\r\n%s\r\n'%(tag,mbx,flags,len(msg),msg)
async def main():
    print('--- D10 IDLE lost wakeup')
    sim = await dict_sim()
    A = await sim.connect(); B = await sim.connect()
    for x in (A,B): await sim.cmd(x, b'a LOGIN u1 p1\r\n', show=False)
    await sim.cmd(A, b's SELECT INBOX\r\n', show=False)
    await sim.cmd(A, b'i IDLE\r\n')
    # two appends back-to-back: second lands 1 tick after the first
    B.r.feed_data(app(b'p1')); 
    await asyncio.sleep(0); await asyncio.sleep(0)
    B.r.feed_data(app(b'p2'));
    await sim.settle(); print('idler got', bytes(A.w.buf)); A.w.buf.clear(); print('B', bytes(B.w.buf)); B.w.buf.clear()
    for k in range(1,6):
      sim2 = await dict_sim()
      A = await sim2.connect(); B = await sim2.connect()
      for x in (A,B): await sim2.cmd(x, b'a LOGIN u1 p1\r\n', show=False)
      await sim2.cmd(A, b's SELECT INBOX\r\n', show=False)
      await sim2.cmd(A, b'i IDLE\r\n', show=False)
      B.r.feed_data(app(b'p1'))
      for _ in range(k): await asyncio.sleep(0)
      B.r.feed_data(app(b'p2'))
      await sim2.settle(); print('gap',k,'idler got', bytes(A.w.buf)); 
    print('--- D25 APPEND (\\Recent)')
    sim = await dict_sim()
    A = await sim.connect(); B = await sim.connect()
    for x in (A,B): await sim.cmd(x, b'a LOGIN u1 p1\r\n', show=False)
    await sim.cmd(A, app(b'p1', flags=b'(\\Recent) '))
    await sim.cmd(A, b's SELECT INBOX\r\n', show=False); await sim.cmd(A, b'f FETCH 1 FLAGS\r\n'); await sim.cmd(A, b'c CLOSE\r\n', show=False)
    await sim.cmd(B, b's SELECT INBOX\r\n'); await sim.cmd(B, b'f FETCH 1 FLAGS\r\n')
    print('--- D21/D22 search')
    await sim.cmd(B, app(b'p2'), show=False); await sim.cmd(B, app(b'p3'), show=False)
    await sim.cmd(B, b's1 SEARCH 2:3\r\n'); await sim.cmd(B, b's2 UID SEARCH 2:3\r\n'); await sim.cmd(B, b's3 UID SEARCH 102\r\n')
    await sim.cmd(B, b's4 SEARCH BODY hello\r\n'); await sim.cmd(B, b's5 SEARCH TEXT hello\r\n'); await sim.cmd(B, b's6 SEARCH NOT NOT ALL\r\n')
    print('--- D18 newline names / D3')
    await sim.cmd(B, b'n1 CREATE {3+}\r\na\nb\r\n'); await sim.cmd(B, b'n2 LIST "" *\r\n'); await sim.cmd(B, b'n3 LIST "" %\r\n')
    await sim.cmd(B, b'n4 CREATE foo\r\n', show=False); await sim.cmd(B, b'n5 CREATE {4+}\r\nfoo\n\r\n', show=False); await sim.cmd(B, b'n6 LIST "" foo\r\n')
    print('--- D6/D26 bare CR in subject; zero-part multipart')
    await sim.cmd(B, app(b'q1', msg=b'Subject: a\rb\r\nContent-Type: multipart/mixed; boundary=xx\r\n\r\nno parts\r\n'), show=False)
    await sim.cmd(B, b'q2 FETCH 4 (ENVELOPE BODYSTRUCTURE BODY)\r\n')
asyncio.run(main())
