import asyncio, time
from pymap.concurrent import ReadWriteLock, FileLock
# 1. virtual clock + quiescence with timers
async def main():
    loop = asyncio.get_running_loop()
    vt = [0.0]
    loop.time = lambda: vt[0]
    async def settle(advance=True):
        n = 0
        while True:
            await asyncio.sleep(0); n += 1
            if loop._ready: continue
            if loop._scheduled and advance:
                vt[0] = max(vt[0], min(h._when for h in loop._scheduled if not h._cancelled) if any(not h._cancelled for h in loop._scheduled) else vt[0])
                if all(h._cancelled for h in loop._scheduled): return n
                continue
            return n
    t0 = time.time()
    async def sleeper():
        await asyncio.sleep(3600); return 'done'
    t = asyncio.create_task(sleeper())
    print(await settle(), t.result(), 'wall', round(time.time()-t0,3), 'vt', vt[0])
    # 2. RW lock: writer inside, R1 queued, R2 enters?
    lock = ReadWriteLock.for_asyncio()
    log = []
    gates = {k: asyncio.Event() for k in 'W R1 R2'.split()}
    async def w():
        async with lock.write_lock():
            log.append('W in'); await gates['W'].wait(); log.append('W out')
    async def r(name):
        async with lock.read_lock():
            log.append(name+' in'); await gates[name].wait(); log.append(name+' out')
    tw = asyncio.create_task(w()); await settle(False)
    t1 = asyncio.create_task(r('R1')); await settle(False)
    t2 = asyncio.create_task(r('R2')); await settle(False)
    print(log)
    for g in gates.values(): g.set()
    await settle(False); print(log, tw.done(), t1.done(), t2.done())
asyncio.run(main())
