#!/bin/sh
# Runs the repository's pinned test suite (guard variable off). Prints the summary line.
cd /repo && unset PYMAP_VERIF && /venv/bin/python -m pytest -q -p no:cacheprovider --timeout=900 --continue-on-collection-errors "$@" 2>&1 | tail -5
