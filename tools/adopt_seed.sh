#!/bin/sh
# usage: adopt_seed.sh <ID> [name]   -- copies /tmp/seed-<ID>-out into seeded/<name>, verifies it in a scratch worktree
ID="$1"; NAME="${2:-$1}"; SRC="/tmp/seed-$ID-out"; DST="/verif/seeded/$NAME"; WT="/tmp/verify-$NAME"
[ -f "$SRC/patch.diff" ] || { echo "no patch in $SRC"; exit 2; }
mkdir -p "$DST"; cp "$SRC/patch.diff" "$DST/patch.diff"; cp "$SRC/demo.py" "$DST/demo.py" 2>/dev/null; cp "$SRC/NOTES.md" "$DST/NOTES.md" 2>/dev/null
git -C /repo worktree add --detach "$WT" HEAD >/dev/null 2>&1 || exit 2
cd "$WT" || exit 2
git apply "$DST/patch.diff" || { echo "PATCH DOES NOT APPLY"; cd /; git -C /repo worktree remove --force "$WT"; exit 1; }
T=$(PYTHONPATH="$WT" /venv/bin/python -m pytest -q -p no:cacheprovider --timeout=900 --continue-on-collection-errors 2>&1 | tail -1)
PYTHONPATH="$WT" timeout 600 /venv/bin/python "$DST/demo.py" >/tmp/demo-$NAME-patched.log 2>&1; D1=$?
git apply -R "$DST/patch.diff"
PYTHONPATH="$WT" timeout 600 /venv/bin/python "$DST/demo.py" >/tmp/demo-$NAME-clean.log 2>&1; D2=$?
cd /; git -C /repo worktree remove --force "$WT"
echo "tests_with_patch: $T"; echo "demo_with_patch_exit: $D1 ($(tail -1 /tmp/demo-$NAME-patched.log | cut -c1-200))"; echo "demo_without_patch_exit: $D2 ($(tail -1 /tmp/demo-$NAME-clean.log | cut -c1-100))"
python3 - "$DST" "$ID" "$T" "$D1" "$D2" <<'PY'
import json,sys,os
dst,pid,t,d1,d2=sys.argv[1:6]
p=os.path.join(dst,'meta.json')
meta=json.load(open(p)) if os.path.exists(p) else {}
meta.update({"property":pid[:3],'tests_with_patch':t,'demo_exit_with_patch':int(d1),'demo_exit_without_patch':int(d2),
 'verified_by':'tools/adopt_seed.sh in a scratch worktree of /repo HEAD (git apply; pytest; demo; git apply -R; demo)',
 'confirmed': ('300 passed' in t and int(d1)!=0 and int(d2)==0)})
meta.setdefault('needs','see NOTES.md')
json.dump(meta,open(p,'w'),indent=1)
print('confirmed' if meta['confirmed'] else 'NOT CONFIRMED')
PY
