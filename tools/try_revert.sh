#!/bin/sh
# usage: try_revert.sh <commit> <check-id> [replay-path]
# Temporarily un-applies one fix commit in /repo's working tree, runs the check (or one replay), restores the tree.
C="$1"; ID="$2"; R="$3"
git -C /repo diff "$C~1" "$C" | git -C /repo apply -R || exit 2
if [ -n "$R" ]; then /verif/check "$ID" --replay "$R" | tail -5 | cut -c1-400; else /verif/check "$ID" --tier quick | grep -E "^(VIOLATION|signature|$ID )" | cut -c1-300; fi
git -C /repo checkout -- .
rm -rf /verif/replays/*/found
