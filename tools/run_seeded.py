#!/usr/bin/env python3
"""Run registered checks against the seeded changes in /verif/seeded/<name>/.

usage: run_seeded.py [NAME ...]     (default: all)    env TIER=quick|thorough

For each seeded change: apply patch.diff to /repo (git apply), run the check of
the property it breaks (meta.json 'property', plus 'also' if given), record
whether a VIOLATION was reported, and ALWAYS restore /repo
(git checkout -- . and git clean of files the patch added).
Prints one line per (seed, check) and writes seeded/RESULTS.json.
"""
import json
import os
import subprocess
import sys
import time

ROOT = os.path.dirname(os.path.dirname(os.path.abspath(__file__)))
SEEDED = os.path.join(ROOT, 'seeded')


def main() -> int:
    names = sys.argv[1:] or sorted(
        d for d in os.listdir(SEEDED)
        if os.path.isfile(os.path.join(SEEDED, d, 'patch.diff')))
    tier = os.environ.get('TIER', 'quick')
    results = {}
    status = subprocess.run(['git', '-C', '/repo', 'status', '--porcelain'],
                            capture_output=True, text=True).stdout.strip()
    if status:
        print('refusing: /repo has uncommitted changes:\n' + status)
        return 2
    for name in names:
        d = os.path.join(SEEDED, name)
        meta = json.load(open(os.path.join(d, 'meta.json')))
        checks = [meta['property']] + list(meta.get('also', []))
        if meta.get('status') == 'neutralised':
            print(f'{name:28s} skipped: {meta.get("status_note", "")[:100]}')
            results[name] = {'skipped': meta.get('status_note', '')}
            continue
        try:
            subprocess.check_call(['git', '-C', '/repo', 'apply',
                                   os.path.join(d, 'patch.diff')])
            for chk in checks:
                t0 = time.time()
                r = subprocess.run([os.path.join(ROOT, 'check'), chk,
                                    '--tier', tier],
                                   capture_output=True, text=True)
                sigs = [ln.split(': ', 1)[1] for ln in r.stdout.splitlines()
                        if ln.startswith('signature: ')]
                caught = r.returncode == 1 and 'VIOLATION' in r.stdout
                results.setdefault(name, {})[chk] = {
                    'caught': caught, 'exit': r.returncode,
                    'signatures': sigs[:6], 'wall_s': round(time.time() - t0)}
                print(f'{name:28s} {chk} {"CAUGHT" if caught else "missed"} '
                      f'exit={r.returncode} {sigs[:3]}')
                if r.returncode == 2:
                    print(r.stderr[-800:])
        finally:
            subprocess.check_call(['git', '-C', '/repo', 'checkout', '--',
                                   '.'])
            subprocess.check_call(['git', '-C', '/repo', 'clean', '-fdq',
                                   'pymap'])
            subprocess.call('rm -rf %s/replays/*/found' % ROOT, shell=True)
    out = os.path.join(SEEDED, 'RESULTS.json')
    old = {}
    if os.path.exists(out):
        old = json.load(open(out))
    old.update(results)
    json.dump(old, open(out, 'w'), indent=1, sort_keys=True)
    return 0


if __name__ == '__main__':
    sys.exit(main())
