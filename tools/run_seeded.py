#!/usr/bin/env python3
"""Run registered checks against the seeded changes in /verif/seeded/<name>/.

usage: run_seeded.py [NAME ...]     (default: all)
env:   TIER=quick|thorough   SEEDS="1 2 3" (VERIF_SEED values, default "1")
       JOBS=n (seeds in parallel, default 3)   INPLACE=1 (patch /repo itself)

Default mode: for each seeded change a scratch git worktree of /repo's HEAD is
made under the system temp dir, patch.diff is applied there, and the check of
the property it breaks (meta.json 'property', plus 'also') runs with
VERIF_REPO=<worktree>; the worktree is removed afterwards. /repo is never
touched, evidence/ and replays/ are not written (VERIF_SCRATCH_OUT).
INPLACE=1 is the literal procedure: git -C /repo apply, run, git checkout.
Prints one line per (seed, check, VERIF_SEED) and writes seeded/RESULTS.json.
"""
import json
import os
import shutil
import subprocess
import sys
import tempfile
import time
from concurrent.futures import ThreadPoolExecutor

ROOT = os.path.dirname(os.path.dirname(os.path.abspath(__file__)))
SEEDED = os.path.join(ROOT, 'seeded')


def run_one(name: str, tier: str, seeds: list[str], inplace: bool) -> dict:
    d = os.path.join(SEEDED, name)
    meta = json.load(open(os.path.join(d, 'meta.json')))
    if meta.get('status') == 'neutralised':
        print(f'{name:10s} skipped: {meta.get("status_note", "")[:100]}',
              flush=True)
        return {'skipped': meta.get('status_note', '')}
    checks = [meta['property']] + list(meta.get('also', []))
    res: dict = {}
    wt = None
    scratch = tempfile.mkdtemp(prefix='seedrun-')
    env = dict(os.environ, VERIF_SCRATCH_OUT=scratch)
    try:
        if inplace:
            subprocess.check_call(['git', '-C', '/repo', 'apply',
                                   os.path.join(d, 'patch.diff')])
        else:
            wt = os.path.join(scratch, 'tree')
            subprocess.check_call(['git', '-C', '/repo', 'worktree', 'add',
                                   '--detach', wt, 'HEAD'],
                                  stdout=subprocess.DEVNULL,
                                  stderr=subprocess.DEVNULL)
            subprocess.check_call(['git', '-C', wt, 'apply',
                                   os.path.join(d, 'patch.diff')])
            env['VERIF_REPO'] = wt
        for chk in checks:
            for seed in seeds:
                t0 = time.time()
                env['VERIF_SEED'] = seed
                r = subprocess.run([os.path.join(ROOT, 'check'), chk,
                                    '--tier', tier], env=env,
                                   capture_output=True, text=True)
                sigs = [ln.split(': ', 1)[1] for ln in r.stdout.splitlines()
                        if ln.startswith('signature: ')]
                caught = r.returncode == 1 and 'VIOLATION' in r.stdout
                res.setdefault(chk, {})[seed] = {
                    'caught': caught, 'exit': r.returncode,
                    'signatures': sigs[:6], 'wall_s': round(time.time() - t0)}
                print(f'{name:10s} {chk} seed={seed} '
                      f'{"CAUGHT" if caught else "missed"} '
                      f'exit={r.returncode} {sigs[:3]}', flush=True)
                if r.returncode == 2:
                    print(r.stderr[-800:], flush=True)
    finally:
        if inplace:
            subprocess.check_call(['git', '-C', '/repo', 'checkout', '--',
                                   '.'])
            subprocess.check_call(['git', '-C', '/repo', 'clean', '-fdq',
                                   'pymap'])
        elif wt:
            subprocess.call(['git', '-C', '/repo', 'worktree', 'remove',
                             '--force', wt], stdout=subprocess.DEVNULL,
                            stderr=subprocess.DEVNULL)
        shutil.rmtree(scratch, ignore_errors=True)
    return res


def main() -> int:
    names = sys.argv[1:] or sorted(
        d for d in os.listdir(SEEDED)
        if os.path.isfile(os.path.join(SEEDED, d, 'patch.diff')))
    tier = os.environ.get('TIER', 'quick')
    seeds = os.environ.get('SEEDS', '1').split()
    inplace = bool(os.environ.get('INPLACE'))
    jobs = 1 if inplace else int(os.environ.get('JOBS', '3'))
    if inplace:
        status = subprocess.run(['git', '-C', '/repo', 'status',
                                 '--porcelain'], capture_output=True,
                                text=True).stdout.strip()
        if status:
            print('refusing: /repo has uncommitted changes:\n' + status)
            return 2
    with ThreadPoolExecutor(jobs) as ex:
        futs = {n: ex.submit(run_one, n, tier, seeds, inplace)
                for n in names}
        results = {n: f.result() for n, f in futs.items()}
    subprocess.call(['git', '-C', '/repo', 'worktree', 'prune'])
    head = subprocess.run(['git', '-C', '/repo', 'log', '--format=%h', '-1'],
                          capture_output=True, text=True).stdout.strip()
    out = os.path.join(SEEDED, 'RESULTS.json')
    old = {}
    if os.path.exists(out):
        old = json.load(open(out))
    for n, r in results.items():
        old[n] = {'repo_head': head, 'tier': tier, 'checks': r}
    json.dump(old, open(out, 'w'), indent=1, sort_keys=True)
    missed = [(n, c, s) for n, r in results.items() if 'skipped' not in r
              for c, per in r.items() for s, v in per.items()
              if not v['caught']]
    print(f'{len(results)} seeds, missed runs: {missed}')
    return 0


if __name__ == '__main__':
    sys.exit(main())
