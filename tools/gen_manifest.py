#!/usr/bin/env python3
"""Regenerates /verif/MANIFEST.json from the table below and validates it."""
import json
import os
import sys

ROOT = os.path.dirname(os.path.dirname(os.path.abspath(__file__)))

# id -> (category, technique, level text, level note, design ref)
CHECKS = {
    'C14': ('fault_enumeration',
            'Hypothesis-generated command shapes; exhaustive enumeration of '
            'fault positions per command (task cancellation, disconnect, '
            'injected storage-call exceptions, injected filesystem errors, '
            'kill + restart from crash images); conservation oracle over '
            'source/destination dumps',
            'For each generated MOVE / COPY / multi-message APPEND / EXPUNGE '
            'command (UID variants, 1-4 messages, \\Deleted subsets, set '
            'shapes, a second session with source or destination selected, '
            'back-pressure gate) a dry run counts loop iterations, backend '
            'storage calls and mutating filesystem operations; then every '
            'position of every fault kind is executed in a fresh world: f1 '
            'cancel and f2 EOF/reset at every loop iteration; f3 an exception '
            'from the n-th MailboxData.append/copy/move/delete/update/get or '
            'rw-lock acquisition; f4 (maildir) EIO from the n-th mutating '
            'filesystem operation; f5 (maildir) kill before the n-th '
            'operation, restart of the crash image. After each: every message '
            'that existed is in source or destination, after an OK MOVE in '
            'exactly one, a failed multi-APPEND left nothing, NO/BAD changed '
            'nothing, the server still serves. Exhaustive over the fault '
            'positions of each generated command; commands are sampled.',
            'On the asyncio subsystem f1/f2 cannot land inside a dict command '
            '(reported per fault kind in the evidence); faults are not '
            'injected into lock-file and tmp/ cleanup unlinks; one known '
            'finding (kill inside a maildir MULTIAPPEND).',
            'DESIGN.md section 3, C14'),
    'C04': ('exploration',
            'Hypothesis-generated multi-session, multi-mailbox histories; '
            'invariant over the whole history of reported (UIDVALIDITY, UID) '
            'pairs, verified by UID FETCH probes',
            'Histories of <= 30 steps over INBOX / A / B with three sessions: '
            'APPEND and MULTIAPPEND, COPY / MOVE by sequence and UID sets, '
            'flag-and-EXPUNGE biased to the highest UID, RENAME (incl. INBOX '
            'on dict), DELETE + CREATE of the same name, SELECT / STATUS, and '
            'on maildir a server restart in mid-history. Per UIDVALIDITY: '
            'every APPENDUID / COPYUID UID is above everything reported before '
            'and not below a reported UIDNEXT; reported UIDNEXT is above every '
            'assigned UID; the reported UIDs are found by UID FETCH with the '
            'expected X-Vid and COPYUID pairs source to destination; the map '
            '(UIDVALIDITY, UID) -> X-Vid never changes, also across rename and '
            'restart. Crash images are covered by C15 with the same map '
            'invariant. Sampled.',
            'UIDVALIDITY collisions are not steered; command-level '
            'interleaving of sessions (asyncio subsystem).',
            'DESIGN.md section 3, C04'),
    'C15': ('fault_enumeration',
            'Hypothesis-generated histories; exhaustive enumeration of every '
            'filesystem-operation crash point of each history by in-process '
            'snapshots, restart of each image, acknowledged-effects oracle',
            'A generated history of <= 8 commands (APPEND, STORE, COPY, MOVE, '
            'EXPUNGE, CREATE, RENAME, SUBSCRIBE, CHECK) runs on a fresh '
            'maildir store ("++" and "fs" layout; temp filesystem and, when '
            'present, /dev/shm as a second filesystem) under harness.fsmon, '
            'which copies the store before every mutating filesystem operation '
            '- the disk image of a kill at that point - and after the last '
            'command. Every image is restarted with a new backend (stale lock '
            'files aged past expiry), all mailboxes are listed, examined and '
            'dumped, and one more APPEND is made. Everything acknowledged '
            'before the crash point must be served (X-Vid, flags, size, UID '
            'under the same UIDVALIDITY, mailboxes, subscriptions), the '
            'in-flight command may be applied or not, no (UIDVALIDITY, UID) '
            'ever reported may denote another message or be assigned again. '
            'Exhaustive over the crash points of each generated history; '
            'histories are sampled.',
            'Crash image = store as the OS sees it before operation k (loss '
            'of un-fsynced data by the OS is out of scope); one server '
            'process on the asyncio subsystem.',
            'DESIGN.md section 3, C15'),
    'C16': ('exploration',
            'Hypothesis-generated schedules on a harness-owned event loop '
            '(commands fed without waiting, k loop iterations, write-gate '
            'back-pressure, virtual clock); shadow client vs ground truth at '
            'quiescence without DONE',
            'Schedules of <= 30 actions for 1-2 idling sessions and 1-2 '
            'writers: a writer\'s APPEND / STORE / flag-and-EXPUNGE is fed to '
            'the server, the loop runs 0-6 iterations, an idler\'s write gate '
            'is closed or opened (back-pressure while a notification is being '
            'written). At the end the gates are opened and the loop runs '
            'until nothing is runnable (maildir: plus 3 virtual seconds) - no '
            'DONE, no further mailbox activity; each idler\'s shadow client '
            '(count, UIDs by position, flags) must equal a probe dump and all '
            'untagged data must satisfy the C01 client-side assertions; DONE '
            'must give the tagged OK and any other line the tagged BAD. dict '
            '(event driven) and maildir (1 s poll). Sampled schedules.',
            'Asyncio subsystem only; the harness produces only schedules a '
            'real loop can produce; quiescence read from loop._ready / '
            'loop._scheduled.',
            'DESIGN.md section 3, C16'),
    'C17': ('exploration',
            'Hypothesis-generated select/examine/close/reconnect/arrival '
            'histories for three sessions; invariant over the whole history '
            'of who was shown \\Recent',
            'Histories of <= 30 steps in which three sessions SELECT, EXAMINE, '
            'CLOSE, reselect and reconnect the mailbox in any order while '
            'messages arrive by APPEND (from a session that has the mailbox '
            'selected, examined, another mailbox selected or nothing '
            'selected; with and without \\Recent in the flag list) and by '
            'COPY, and STORE with \\Recent is tried in five modes; dict and '
            'maildir. Invariants: per message at most one read-write selection '
            'ever shows \\Recent; arrivals while no read-write selection '
            'exists must be shown by the first read-write SELECT; the RECENT '
            'number equals the number of messages the session sees flagged; '
            'STORE never moves \\Recent; a final fresh SELECT re-announces '
            'nothing. Sampled.',
            'The harness holds connection state only weakly (pymap tracks '
            'selections in a WeakSet; a strongly held dead selection would '
            'be a harness artefact).',
            'DESIGN.md section 3, C17'),
    'C19': ('exploration',
            'Hypothesis-generated ManageSieve programs (names decoded relative '
            'to the model state) against a per-user dictionary model',
            'Programs of <= 30 steps over the whole ManageSieve command set '
            'for alice and bob: script commands before authentication (must '
            'be refused, must not return data), PUTSCRIPT with names (UTF-8, '
            'quotes, backslashes, 200 bytes, empty) and bodies (arbitrary '
            'bytes up to the 4096-byte string limit, quoted or {n+} literal), '
            'GETSCRIPT, LISTSCRIPTS, SETACTIVE (name, "", unknown), '
            'DELETESCRIPT, RENAMESCRIPT (onto itself / existing), HAVESPACE, '
            'CHECKSCRIPT, UNAUTHENTICATE and re-login as the other user. After '
            'every mutating command LISTSCRIPTS (names, exactly one ACTIVE '
            'mark) and GETSCRIPT of every script are compared with the model; '
            'the other user\'s store is compared when the program logs in as '
            'that user. Sampled.',
            'dict backend (the maildir filter set keeps a single script by '
            'design); script bodies need not be valid Sieve.',
            'DESIGN.md section 3, C19'),
    'C13': ('exploration',
            'Hypothesis-generated mailboxes and search programs; independent '
            'RFC 3501 search evaluator as oracle plus metamorphic relations',
            'Mailboxes of <= 8 generated messages (system flags, session '
            'keywords, sizes around the LARGER/SMALLER thresholds, internal '
            'and Date: dates around day boundaries, From/To/Cc/Bcc/Subject/X- '
            'headers and bodies from a 12-word vocabulary, \\Recent on some, '
            'optionally a hidden expunged message) and programs over every '
            'supported key, NOT, OR and parenthesised lists (depth <= 3) on '
            'dict and maildir. The result is compared with an evaluator '
            'written from RFC 3501 6.4.4 over the session\'s own view, and '
            'with itself under: SEARCH vs UID SEARCH, OR commutes, AND '
            'commutes, (a) = a, De Morgan, k / NOT k partition ALL. Sampled.',
            'Vocabulary words as search strings, TZ=UTC with +0000 dates, '
            'every message has a Date header; NOT NOT k not generated; a '
            'hidden expunged message may or may not be reported.',
            'DESIGN.md section 3, C13'),
    'C11': ('exploration',
            'Hypothesis-generated namespace programs compared step by step '
            'with a namespace reference model (own non-regex LIST matcher, '
            'own modified-UTF-7 codec)',
            'Programs of <= 25 commands (CREATE, DELETE, RENAME incl. '
            'inferiors and INBOX, SUBSCRIBE, UNSUBSCRIBE, LIST and LSUB with '
            'reference/pattern pairs from a pattern grammar, STATUS, SELECT + '
            'content read-back, APPEND) over names of depth <= 3 with '
            'wildcard, quote, backslash, newline, non-ASCII and INBOX-case '
            'components on dict, maildir "++" and maildir "fs". LIST: the '
            'selectable entries must be exactly the existing matching names, '
            '\\Noselect entries must be matching proper ancestors; LSUB: '
            'subscribed+existing+matching must be listed, nothing '
            'unsubscribed; RENAME keeps messages, UIDs and UIDVALIDITY; '
            'error paths must answer NO and change nothing. Sampled.',
            'RFC latitude is encoded as sets of allowed outcomes (implied '
            'superiors, DELETE with inferiors, SUBSCRIBE of missing names, '
            'RENAME INBOX refusal); INBOX counts as permanently subscribed '
            '(pinned by the repository tests); maildir under fsmon '
            'confinement.',
            'DESIGN.md section 3, C11'),
    'C08': ('exploration',
            'exhaustive enumeration of short adversarial names + Hypothesis '
            'names; filesystem-call tracing with confinement (os/builtins/io '
            'wrapped in-process) and before/after tree fingerprints as oracle',
            'Every name of <= 2 (quick) / <= 3 (thorough) components over an '
            '16-element alphabet (empty, ".", "..", NUL, 300 bytes, non-ASCII, '
            '"~", "*", INBOX, ...) and Hypothesis names beyond are run through '
            '20 commands covering all 14 mailbox-argument positions, on '
            'maildir "++", maildir "fs" and dict, with alice and bob '
            'provisioned and the store five directories deep. maildir: every '
            'filesystem call made while alice is served is traced; a mutating '
            'call outside <base>/alice (or rmdir/rename/remove of that '
            'directory itself) or a listing/read outside it is a violation and '
            'is refused before it executes; the whole scratch tree outside '
            'alice\'s store (bob, credential files, bait files) must be '
            'byte-identical afterwards and bob\'s LIST/LSUB/dumps unchanged. '
            'Exhaustive for the short names, sampled beyond.',
            'Python-level filesystem calls only; stat() and interpreter reads '
            'not flagged.',
            'DESIGN.md section 3, C08'),
    'C10': ('exploration',
            'Hypothesis-generated command programs compared step by step with '
            'a plain reference model (responses and full probe dumps)',
            'Programs of <= 30 commands (APPEND with flags/date, STORE and UID '
            'STORE in three modes and .SILENT, EXPUNGE, UID EXPUNGE, COPY, '
            'MOVE and UID variants, FETCH with and without .PEEK, CLOSE + '
            'reselect) with sequence-set shapes single / range / reversed / * '
            '/ n:* / *:n / duplicate lists / out-of-range / expunged UIDs, on '
            'dict and maildir. After every command: which messages were '
            'reported, their flags, EXPUNGE numbers replayed on the model, '
            'COPYUID pairs in order, APPENDUID, and a probe dump of both '
            'mailboxes (UIDs, system flags, X-Vid content identity, supplied '
            'INTERNALDATE) against the model. Sampled.',
            'The model is my reading of RFC 3501/4315/6851; documented '
            'latitude (out-of-range numbers, non-permitted keywords, \\Recent) '
            'is listed in the evidence assumptions.',
            'DESIGN.md section 3, C10'),
    'C12': ('exploration',
            'Hypothesis-generated programs inside a read-only selection; '
            'differential oracle (same setup with and without the program) '
            'plus per-command refusal checks',
            'A generated program of <= 20 message commands and UID variants '
            '(non-PEEK and PEEK fetches, STORE in every mode, EXPUNGE, UID '
            'EXPUNGE, COPY/MOVE out, SEARCH, CHECK, IDLE, CLOSE + re-select) is '
            'issued inside an EXAMINE selection (dict, maildir) or inside a '
            'SELECT of the dict demo user\'s backend-read-only Trash (where '
            'APPEND/COPY/MOVE into it are also tried), with 0-2 observers. The '
            'same setup is run without the program; a fresh read-write SELECT '
            'must then see the same RECENT, \\Recent UIDs, flags, UIDs and '
            'sizes. STORE/EXPUNGE must answer NO, CLOSE must answer OK and '
            'deselect, observers must receive no untagged data. Sampled.',
            'Determinism of the two runs (UIDs are deterministic, '
            'UIDVALIDITY/ids masked); APPEND/COPY into the EXAMINEd mailbox '
            'itself is legal and not generated.',
            'DESIGN.md section 3, C12'),
    'C09': ('exploration',
            'Hypothesis-generated sequences of authentication attempts; '
            'independent credential/authorization model as soundness oracle, '
            'identity revealed by LIST / LISTSCRIPTS probes',
            'Sequences of <= 8 attempts (LOGIN in every spelling, AUTHENTICATE '
            'PLAIN / LOGIN / unknown mechanism, correct, wrong, empty, 8-bit, '
            'NUL-containing, oversized passwords, authzid equal / different / '
            'unknown, base64 mangled, truncated, cancelled with "*", STARTTLS, '
            'UNAUTHENTICATE) with TLS required or not and a local or remote '
            'peer, on IMAP (dict, maildir) and ManageSieve (dict). After every '
            'attempt the tagged result and a LIST/LISTSCRIPTS probe are '
            'compared with the model: authenticated only with valid '
            'credentials, acting exactly as the authorized identity, no LOGIN '
            'while LOGINDISABLED is advertised, nothing changes after a later '
            'attempt. The evidence counts successful attempts. Sampled.',
            'Soundness only (rejected valid credentials are counted, not '
            'flagged); STARTTLS is a no-op handshake; SASLprep look-alike '
            'passwords are not generated.',
            'DESIGN.md section 3, C09'),
    'C05': ('exploration',
            'exhaustive enumeration of short command sequences + Hypothesis '
            'sequences, four-state reference machine as oracle, state revealed '
            'by probe commands',
            'All sequences over a 54-instance alphabet (every built-in '
            'command, valid/invalid arguments, existing/missing mailboxes, '
            'SELECT/EXAMINE, good/bad/cancelled LOGIN and AUTHENTICATE, '
            'STARTTLS, IDLE+DONE, UID variants) up to length 2 (quick) / 3 '
            '(thorough), also after the prefixes LOGIN, LOGIN+SELECT, '
            'LOGIN+EXAMINE; Hypothesis sequences up to length 30 on dict and '
            'maildir with and without required TLS. After every command: the '
            'tagged condition vs the reference machine, STATUS / SEARCH '
            'probes for authenticated / selected, the selected mailbox and '
            'read-only bit, LOGOUT = BYE, OK, close, and a data fingerprint '
            'from a second connection around every refused command. '
            'Exhaustive for the short sequences, sampled beyond.',
            'bad_command_limit=None for the probes; selected mailbox identity '
            'read glass-box; commands whose outcome depends on data are only '
            'checked for their state effect.',
            'DESIGN.md section 3, C05'),
    'C03': ('exploration',
            'Hypothesis-generated byte strings (raw, line grammar, MIME '
            'grammar, tiled large) with round-trip oracles at MIME-parser and '
            'wire level; plus coverage-guided fuzzing (atheris/libFuzzer) of '
            'the same round-trip oracles from a MIME seed corpus',
            'mime tier: MessageContent.parse(b) must serialise back to b, '
            'header+body must equal the part and every nested part must be a '
            'slice of its parent body. wire tier (dict and maildir): APPEND b, '
            'then RFC822.SIZE == len(b), BODY[] == RFC822 == b, BODY[HEADER]+'
            'BODY[TEXT] == b, BODY[]<o.n> == b[o:o+n], and for every leaf part '
            'p of the parsed BODYSTRUCTURE the announced octets vs '
            'len(BODY[p]); the same on the COPY and on the MOVEd copy. '
            'Sampled; sizes up to 64 KiB by tiling.',
            'D13 (announced part size includes the part header; pinned by the '
            'repository tests) is a listed known finding with an exact shape; '
            'zero-length b not generated.',
            'DESIGN.md section 3, C03'),
    'C07': ('exploration',
            'Hypothesis-generated programs that plant adversarial data and '
            'read it back; oracle = independent strict RFC 3501 response '
            'parser over the whole byte stream; plus coverage-guided fuzzing '
            '(atheris/libFuzzer) of the planted message/names/keywords '
            'against the same parser oracle',
            'Each case plants Unicode mailbox names, a message from the '
            'header/MIME grammars, keywords, a tag over all legal tag bytes, ID '
            'parameters and header-field names in every spelling, then runs '
            '~45 commands that echo them (CREATE/LIST/LSUB/STATUS/SELECT/'
            'RENAME, APPEND/FETCH of ENVELOPE, BODY, BODYSTRUCTURE, sections, '
            'BINARY, STORE, SEARCH, COPY/MOVE, error paths). The complete '
            'output is parsed by harness/wire.py (shares no code with '
            'pymap.parsing): CRLF-terminated complete responses, known kinds, '
            'tags that were sent, literal counts, quoted-string content, '
            'balanced lists, envelope/body/status/list shapes. Sampled.',
            'The oracle is my reading of RFC 3501 section 9 + extensions; '
            '8-bit bytes in quoted strings and NUL inside plain literals are '
            'not flagged (the statement does not list them); adversarial names '
            'only on dict.',
            'DESIGN.md section 3, C07'),
    'C06': ('exploration',
            'grammar-based + mutational + raw-byte fuzzing with Hypothesis at '
            'parser and wire level, generated messages read back with every '
            'FETCH attribute / SEARCH key, CPU-budget hang detector, failures '
            'bucketed by (exception type, innermost pymap frame); plus '
            'coverage-guided byte-level fuzzing (atheris/libFuzzer) of the '
            'same parse / wire / message / sieve targets with the oracle '
            'inside the target',
            'Command lines from a hole-filled grammar of every IMAP command, '
            'mutations of valid lines, raw bytes and near-64KiB lines are fed '
            '(a) to Commands.parse exactly as the connection does and (b) '
            'through a real in-process connection in the not-authenticated, '
            'authenticated and selected states with a bystander connection; '
            'generated messages (raw, line grammar, MIME grammar, adversarial '
            'header values) are APPENDed on dict and maildir and read with 37 '
            'FETCH items and 41 SEARCH programs; the ManageSieve listener gets '
            'its own grammar. Oracle: a completion (or continuation, or BYE '
            'then close) for the line, never [SERVERBUG], the connection task '
            'never dies, never closes without BYE, the bystander is served, '
            'the connection stays responsive, and no case exceeds the CPU '
            'budget twice (10 s, confirmed with 60 s). Sampled.',
            'A budget hit that does not confirm is inconclusive; lines at or '
            'above the 64 KiB stream limit are outside the quantifier; '
            'ManageSieve NO "Server error." is not counted.',
            'DESIGN.md section 3, C06'),
    'C18': ('exploration',
            'Hypothesis-generated spellings: metamorphic sibling comparison '
            '(parser objects and wire responses), parse/serialise/parse round '
            'trips, independent modified-UTF-7 codec as oracle for names',
            'For 21 command templates every legal spelling of each string '
            'argument (atom/quoted/{n}/{n+}, random letter case of command and '
            'keyword atoms) must parse to field-by-field equal command objects '
            'and, against two identical fresh servers, give equal masked '
            'responses and equal LIST/STATUS/LSUB dumps; ten parseable types '
            'are round-tripped with a random suffix; every generated Unicode '
            'mailbox name is created and read back from LIST and STATUS and '
            'decoded with an independent RFC 3501 5.1.3 codec. Sampled.',
            'Extra spacing is not generated (RFC 3501 allows none); '
            'FetchAttribute is only checked for consuming exactly its own '
            'bytes (its serialisation is the response form); dict backend for '
            'the wire-level parts.',
            'DESIGN.md section 3, C18'),
    'C01': ('exploration',
            'Hypothesis-generated multi-session command programs; shadow-client '
            'invariants + glass-box comparison with the server-side view + '
            'ground-truth probe',
            'Generated programs of 1-3 sessions (addresses decoded relative '
            'to each session\'s own possibly stale view, split literals, IDLE, '
            'timers) run in-process on dict and maildir; after every response '
            'the client-side invariants (EXPUNGE in range, EXISTS never '
            'shrinks, FETCH n UID agrees with position n, no EXPUNGE during a '
            'non-UID FETCH/STORE/SEARCH) are asserted, the shadow view is '
            'compared with ConnectionState._selected.messages, and STORE/'
            'FETCH/SEARCH results are compared with a fresh probe session. '
            'Sampled, not exhaustive.',
            'Asyncio subsystem only (a non-IDLE command completes in one loop '
            'iteration there, so interleaving is at command / literal / IDLE / '
            'timer granularity); trusts harness/wire.py and the probe session.',
            'DESIGN.md section 3, C01'),
    'C02': ('exploration',
            'Hypothesis-generated multi-session histories with sync points; '
            'shadow-client view vs ground-truth dump, both directions; plus '
            'generated bursts of commands really in flight together on the '
            'threading subsystem (interleaving-independent oracles)',
            'Histories of 2-4 sessions on one mailbox including stale '
            'addresses; at generated sync points and at the end every session '
            'issues NOOP/CHECK and its {uid -> flags} view must equal a fresh '
            'probe dump (nothing stuck, nothing lost, no stale flags). '
            'Sampled, not exhaustive.',
            'Owned schedules on the asyncio subsystem; the burst third of '
            'the cases runs maildir on worker threads whose interleaving the '
            'harness does not own (one-sided there: a divergence seen is a '
            'fact, a quiet run proves nothing). Sessions learn UIDs of new '
            'positions by FETCH n:m (UID); only system flags; trusts '
            'harness/wire.py and the probe session.',
            'DESIGN.md section 3, C02'),
    'C20': ('exploration',
            'exhaustive schedule enumeration + Hypothesis-generated '
            'schedules with cancellation/exception faults, enter/exit-log '
            'invariant oracle; plus generated real-thread stress programs '
            'for the threading twins (overlap detector, 1 us switch '
            'interval)',
            'Every permit interleaving of 3 tasks x 1 acquisition (with one '
            'optional cancel at every position) and 2 tasks x 2 acquisitions '
            'is enumerated for the asyncio read-write lock and the FileLock; '
            'Hypothesis adds larger programs (<=4 tasks x <=3 acquisitions, '
            'exceptions inside the critical section, several cancels). The '
            'oracle is an invariant over the recorded enter/exit log plus '
            'no-deadlock / still-usable / lock-file-released end checks. '
            'Exhaustive for the small space, sampled beyond.',
            'Trusts the harness gates and the CPython asyncio loop. The '
            'threading twins run under OS threads whose schedule the harness '
            'does not own: there only an observed overlap counts, deadlock '
            'is not judged (60 s without finishing = inconclusive). FileLock '
            'expiry by wall clock not exercised.',
            'DESIGN.md section 3, C20'),
}

NOT_YET = 'check not built yet in this revision (planned, see DESIGN.md)'


def main() -> int:
    with open(os.path.join(ROOT, 'properties.jsonl')) as f:
        ids = [json.loads(line)['id'] for line in f if line.strip()]
    checks = []
    for pid in ids:
        if pid not in CHECKS:
            continue
        cat, tech, text, note, ref = CHECKS[pid]
        checks.append({
            'property_id': pid,
            'quick_cmd': f'./check {pid} --tier quick',
            'thorough_cmd': f'./check {pid} --tier thorough',
            'evidence_file': f'evidence/{pid}.json',
            'replay_cmd_template': f'./check {pid} --replay {{path}}',
            'engine': 'pbt',
            'level_claimed': {'category': cat, 'text': text,
                              'design_ref': ref},
            'level_note': note,
            'technique': tech,
        })
    manifest = {
        'version': 1,
        'setup_cmd': './setup.sh',
        'hooks': {
            'guard': 'PYMAP_VERIF',
            'enable': 'no source hooks are needed: the harness drives pymap '
                      'in-process through its public constructors; '
                      'PYMAP_VERIF is reserved and used by no source change',
            'baseline_off_cmd': 'cd /repo && env -u PYMAP_VERIF '
                                '/venv/bin/python -m pytest -q '
                                '-p no:cacheprovider --timeout=900 '
                                '--continue-on-collection-errors',
            'source_commits': [],
            'add_only': True,
        },
        'engines': [{
            'name': 'pbt',
            'path': 'harness/',
            'serves_properties': [c['property_id'] for c in checks],
            'kind_free_text': 'Hypothesis-generated cases / exhaustive '
                              'enumeration of small spaces, run against '
                              'pymap in-process on a harness-owned event '
                              'loop with a virtual clock; explicit oracles '
                              '(reference models, round trips, invariants '
                              'over histories); 16 shards; library-free '
                              'JSON replay files',
        }, {
            'name': 'fuzz',
            'path': 'harness/fuzz.py',
            'serves_properties': ['C03', 'C06', 'C07'],
            'kind_free_text': 'coverage-guided byte-level fuzzing with '
                              'atheris/libFuzzer (installed by setup.sh into '
                              './.deps); the fuzz target decodes the bytes '
                              'into a case and runs the same run_case oracle '
                              'as the Hypothesis part; saved inputs become '
                              'the same JSON replay files; skipped with a '
                              'note in the evidence when atheris cannot be '
                              'imported',
        }, {
            'name': 'threads',
            'path': 'harness/simloop.py (CountingExecutor), '
                    'harness/servers.py (maildir_sim(threads=True))',
            'serves_properties': ['C02', 'C03', 'C10', 'C17', 'C20'],
            'kind_free_text': 'pymap on its threading subsystem (the maildir '
                              'command line default) inside the same driver; '
                              'C03/C10/C17 one command at a time '
                              '(reproducible), C02/C17 generated bursts of '
                              'commands in flight together and C20 thread '
                              'stress programs with interleaving-independent '
                              'oracles (one-sided: the schedule is the '
                              "operating system's)",
        }],
        'checks': checks,
        'notes': 'Exit codes: 0 held / 1 VIOLATION line / 2 harness error '
                 '(no verdict). VERIF_SEED selects the generation seed. '
                 'known_findings.json lists recorded and fixed defects.',
        'not_applicable': [{'property_id': pid, 'reason': NOT_YET}
                           for pid in ids if pid not in CHECKS],
    }
    path = os.path.join(ROOT, 'MANIFEST.json')
    with open(path, 'w') as f:
        json.dump(manifest, f, indent=1)
        f.write('\n')
    try:
        import jsonschema
        with open('/root/.vp/MANIFEST.schema.json') as f:
            jsonschema.validate(manifest, json.load(f))
        print('MANIFEST.json valid;', len(checks), 'checks')
    except ImportError:
        print('MANIFEST.json written (jsonschema not available)')
    return 0


if __name__ == '__main__':
    sys.exit(main())
