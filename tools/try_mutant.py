#!/usr/bin/env python3
"""Sensitivity experiments: apply a small source mutation to /repo, run checks, always revert.

usage: try_mutant.py FILE 'OLD' 'NEW' CHECK [CHECK...]   (FILE relative to /repo; OLD must occur exactly once)
       try_mutant.py --patch PATCH.diff CHECK [CHECK...]
"""
import subprocess, sys, os
def main():
    a = sys.argv[1:]
    if a[0] == '--patch':
        patch, checks = a[1], a[2:]
        subprocess.check_call(['git', '-C', '/repo', 'apply', os.path.abspath(patch)])
    else:
        f, old, new, checks = a[0], a[1], a[2], a[3:]
        p = os.path.join('/repo', f)
        s = open(p).read()
        old = old.encode().decode('unicode_escape'); new = new.encode().decode('unicode_escape')
        assert s.count(old) == 1, f'OLD occurs {s.count(old)} times'
        open(p, 'w').write(s.replace(old, new))
    try:
        tier = os.environ.get('TIER', 'quick')
        for c in checks:
            r = subprocess.run(['/verif/check', c, '--tier', tier], capture_output=True, text=True)
            lines = [l for l in r.stdout.splitlines() if l.startswith(('VIOLATION', 'signature', c + ' '))]
            print(f'== {c}: exit {r.returncode}')
            for l in lines[:8]: print('   ', l[:300])
            if r.returncode == 2: print(r.stderr[-1500:])
    finally:
        subprocess.check_call(['git', '-C', '/repo', 'checkout', '--', '.'])
        subprocess.call('rm -rf /verif/replays/*/found', shell=True)
main()
