#!/bin/sh
# Offline setup: make sure hypothesis and jsonschema are importable by /venv/bin/python.
set -e
for pkg in hypothesis jsonschema; do
  if ! /venv/bin/python -c "import $pkg" 2>/dev/null; then
    PIP_NO_INDEX=1 /venv/bin/pip install --no-index --find-links /opt/veriftools/wheels "$pkg"
  fi
done
/venv/bin/python -c "import hypothesis, jsonschema, pymap; print('setup ok', hypothesis.__version__)"
