#!/bin/sh
# Offline setup: make sure hypothesis and jsonschema are importable by /venv/bin/python.
set -e
for pkg in hypothesis jsonschema; do
  if ! /venv/bin/python -c "import $pkg" 2>/dev/null; then
    PIP_NO_INDEX=1 /venv/bin/pip install --no-index --find-links /opt/veriftools/wheels "$pkg"
  fi
done
# atheris (coverage-guided second engine of C03/C06/C07) goes beside /verif, not into /venv
HERE="$(cd "$(dirname "$0")" && pwd)"
if ! PYTHONPATH="$HERE/.deps" /venv/bin/python -c "import atheris" 2>/dev/null; then
  PIP_NO_INDEX=1 /venv/bin/pip install -q --no-index --find-links /opt/veriftools/wheels --target "$HERE/.deps" atheris \
    || echo "warning: atheris could not be installed; the fuzz part of C03/C06/C07 will be skipped (stated in evidence)"
fi
/venv/bin/python -c "import hypothesis, jsonschema, pymap; print('setup ok', hypothesis.__version__)"
